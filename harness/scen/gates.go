//go:build verif

package scen

import (
	"fmt"
	"sync"
	"time"

	"verif/px"
)

// Gates lets a scenario hold goroutines of the code under test at hook points and release them in a chosen order.
// A gate is one-shot: the first goroutine reaching an armed key blocks until released; later ones pass.
type Gates struct {
	mu      sync.Mutex
	armed   map[string]bool
	arrived map[string]chan struct{}
	release map[string]chan struct{}
	Filter  func(ev *px.HookEvent) bool // optional: only events passing the filter are gated
	Hits    map[string]int
}

func NewGates() *Gates {
	return &Gates{armed: map[string]bool{}, arrived: map[string]chan struct{}{}, release: map[string]chan struct{}{}, Hits: map[string]int{}}
}

func gateKey(point string, host int) string { return fmt.Sprintf("%s@%d", point, host) }

// Arm prepares one-shot gates.
func (g *Gates) Arm(keys ...string) {
	g.mu.Lock()
	for _, k := range keys {
		g.armed[k] = true
		g.arrived[k] = make(chan struct{})
		g.release[k] = make(chan struct{})
	}
	g.mu.Unlock()
}

// Handle is called from the hook; host is the backend host index of the event.
func (g *Gates) Handle(ev *px.HookEvent, host int) {
	k := gateKey(ev.Point, host)
	g.mu.Lock()
	g.Hits[k]++
	if !g.armed[k] || (g.Filter != nil && !g.Filter(ev)) {
		g.mu.Unlock()
		return
	}
	g.armed[k] = false
	arr, rel := g.arrived[k], g.release[k]
	g.mu.Unlock()
	close(arr)
	select {
	case <-rel:
	case <-time.After(60 * time.Second): // safety net: never wedge the code under test for ever
	}
}

// Await waits until a goroutine sits at the gate.
func (g *Gates) Await(key string, d time.Duration) bool {
	g.mu.Lock()
	ch := g.arrived[key]
	g.mu.Unlock()
	if ch == nil {
		return false
	}
	select {
	case <-ch:
		return true
	case <-time.After(d):
		return false
	}
}

func (g *Gates) Release(key string) {
	g.mu.Lock()
	ch := g.release[key]
	armed := g.armed[key]
	g.armed[key] = false
	if ch != nil {
		delete(g.release, key)
	}
	_ = armed
	g.mu.Unlock()
	if ch != nil {
		close(ch)
	}
}

func (g *Gates) ReleaseAll() {
	g.mu.Lock()
	keys := make([]string, 0, len(g.release))
	for k := range g.release {
		keys = append(keys, k)
	}
	g.mu.Unlock()
	for _, k := range keys {
		g.Release(k)
	}
}
