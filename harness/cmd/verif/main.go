//go:build verif

// Command verif is the supervisor and the worker of every check: `verif run <Cxx> <tier>` spawns worker child
// processes (`verif worker ...`) so that a panic of the code under test cannot take the monitors down with it.
package main

import (
	"bufio"
	"encoding/json"
	"fmt"
	"os"
	"os/exec"
	"path/filepath"
	"regexp"
	"runtime"
	"runtime/pprof"
	"strconv"
	"strings"
	"sync"
	"syscall"
	"time"

	"verif/mon"
	"verif/scen"
)

func main() {
	if len(os.Args) < 2 {
		usage()
	}
	switch os.Args[1] {
	case "run":
		if len(os.Args) < 4 {
			usage()
		}
		os.Exit(supervise(os.Args[2], os.Args[3], nil))
	case "worker":
		worker(os.Args[2:])
	case "replay":
		if len(os.Args) < 3 {
			usage()
		}
		os.Exit(replay(os.Args[2]))
	case "list":
		for _, p := range scen.Props() {
			fmt.Println(p)
		}
	default:
		usage()
	}
}

func usage() {
	fmt.Fprintln(os.Stderr, "usage: verif run <Cxx> quick|thorough | verif replay <file> | verif list")
	os.Exit(2)
}

func verifDir() string {
	if d := os.Getenv("VERIF_DIR"); d != "" {
		return d
	}
	return "/verif"
}

func seed() int64 {
	if s := os.Getenv("VERIF_SEED"); s != "" {
		if v, err := strconv.ParseInt(s, 10, 64); err == nil {
			return v
		}
	}
	return 1
}

func supervise(prop, tier string, replayScenario map[string]interface{}) int {
	start := time.Now()
	r := scen.Get(prop)
	if r == nil {
		fmt.Fprintf(os.Stderr, "BROKEN: unknown property %s\n", prop)
		return 2
	}
	if tier != "quick" && tier != "thorough" {
		fmt.Fprintf(os.Stderr, "BROKEN: unknown tier %s\n", tier)
		return 2
	}
	dir := verifDir()
	logDir := filepath.Join(dir, "out", "logs")
	_ = os.MkdirAll(logDir, 0o755)
	n := r.Shards(tier)
	if replayScenario != nil {
		n = 1
	}
	self, _ := os.Executable()
	if r.Race {
		self = filepath.Join(dir, "out", "bin", "verif-race")
	}
	total := mon.NewResult(prop)
	var mu sync.Mutex
	var wg sync.WaitGroup
	broken := false
	for i := 0; i < n; i++ {
		wg.Add(1)
		go func(i int) {
			defer wg.Done()
			base := filepath.Join(logDir, fmt.Sprintf("%s-%s-s%d", prop, tier, i))
			resFile, progFile, logFile := base+".result.json", base+".progress", base+".log"
			_ = os.Remove(resFile)
			_ = os.Remove(progFile)
			lf, _ := os.Create(logFile)
			args := []string{"worker", prop, tier, strconv.Itoa(i), strconv.Itoa(n), resFile, progFile}
			if replayScenario != nil {
				rb, _ := json.Marshal(replayScenario)
				rp := base + ".replay.json"
				_ = os.WriteFile(rp, rb, 0o644)
				args = append(args, rp)
			}
			cmd := exec.Command(self, args...)
			cmd.Stdout = lf
			cmd.Stderr = lf
			cmd.Env = append(os.Environ(), "GOTRACEBACK=all", "VERIF_DIR="+dir)
			if os.Getenv("GOMEMLIMIT") == "" { // soft limit: the collector works harder instead of 16 workers growing to 2x their live heap
				cmd.Env = append(cmd.Env, "GOMEMLIMIT=2GiB")
			}
			if r.Race {
				cmd.Env = append(cmd.Env, "GORACE=halt_on_error=0 exitcode=0 log_path="+base+".race")
				matches, _ := filepath.Glob(base + ".race.*")
				for _, m := range matches {
					_ = os.Remove(m)
				}
			}
			if err := cmd.Start(); err != nil {
				mu.Lock()
				broken = true
				mu.Unlock()
				fmt.Fprintf(os.Stderr, "BROKEN: cannot start worker: %v\n", err)
				return
			}
			done := make(chan error, 1)
			go func() { done <- cmd.Wait() }()
			var err error
			timedOut := false
			select {
			case err = <-done:
			case <-time.After(r.Timeout(tier)):
				timedOut = true
				_ = cmd.Process.Signal(syscall.SIGQUIT) // goroutine dump into the log file
				select {
				case err = <-done:
				case <-time.After(20 * time.Second):
					_ = cmd.Process.Kill()
					err = <-done
				}
			}
			_ = lf.Close()
			shard := mon.NewResult(prop)
			haveResult := false
			if b, rerr := os.ReadFile(resFile); rerr == nil {
				if jerr := json.Unmarshal(b, shard); jerr == nil {
					haveResult = true
				}
			}
			mu.Lock()
			defer mu.Unlock()
			if haveResult {
				total.Merge(shard)
			}
			if r.Race {
				addRaceReports(total, base, dir)
			}
			if timedOut {
				total.Inconc(fmt.Sprintf("shard %d: wall-clock watchdog (%s) fired; last scenario: %s; goroutine dump in %s (what the shard had observed until then is included)", i, r.Timeout(tier), lastStart(progFile), logFile))
				return
			}
			if err != nil {
				kind, top, excerpt := crashInfo(logFile)
				if kind == "" {
					broken = true
					fmt.Fprintf(os.Stderr, "BROKEN: worker shard %d failed without a crash signature (%v), see %s\n", i, err, logFile)
					return
				}
				total.Violate(mon.Violation{Property: prop, Signature: fmt.Sprintf("%s/crash/%s/%s", prop, kind, top),
					Detail:   fmt.Sprintf("worker process died (%v) while running: %s\n%s", err, lastStart(progFile), excerpt),
					Scenario: map[string]interface{}{"kind": "crash", "last_start": lastStart(progFile), "shard": i, "nshards": n},
					Witness:  excerpt})
			}
		}(i)
	}
	wg.Wait()
	if broken {
		return 2
	}
	return mon.Finish(dir, total, tier, seed(), r.Level, r.Rule, start)
}

func lastStart(progFile string) string {
	f, err := os.Open(progFile)
	if err != nil {
		return "(none)"
	}
	defer f.Close()
	last := "(none)"
	sc := bufio.NewScanner(f)
	sc.Buffer(make([]byte, 1<<20), 1<<24)
	for sc.Scan() {
		if strings.HasPrefix(sc.Text(), "START ") {
			last = sc.Text()[6:]
		}
	}
	if len(last) > 2000 {
		last = last[:2000] + "…"
	}
	return last
}

var frameRe = regexp.MustCompile(`^(github\.com/datastax/cql-proxy/[^\s(]+(?:\([^)]*\))?[^\s(]*)\(`)

// crashInfo extracts the kind (panic / fatal), the top-most frame in the repository and an excerpt from a worker log.
func crashInfo(logFile string) (kind, top, excerpt string) {
	b, err := os.ReadFile(logFile)
	if err != nil {
		return "", "", ""
	}
	s := string(b)
	idx := strings.Index(s, "panic: ")
	kind = "panic"
	if j := strings.Index(s, "fatal error: "); j >= 0 && (idx < 0 || j < idx) {
		idx = j
		kind = "fatal"
	}
	if idx < 0 {
		return "", "", ""
	}
	rest := s[idx:]
	lines := strings.Split(rest, "\n")
	msg := lines[0]
	msg = regexp.MustCompile(`0x[0-9a-f]+`).ReplaceAllString(msg, "0x?")
	msg = regexp.MustCompile(`\[\d*:\d*\]`).ReplaceAllString(msg, "[:]")
	msg = regexp.MustCompile(`\d+`).ReplaceAllString(msg, "N")
	top = "(no repo frame)"
	for _, l := range lines {
		if m := frameRe.FindStringSubmatch(strings.TrimSpace(l)); m != nil {
			top = strings.TrimPrefix(m[1], "github.com/datastax/cql-proxy/")
			break
		}
	}
	if len(msg) > 120 {
		msg = msg[:120]
	}
	top = top + ":" + msg
	if len(lines) > 60 {
		lines = lines[:60]
	}
	return kind, top, strings.Join(lines, "\n")
}

func worker(a []string) {
	if len(a) < 6 {
		usage()
	}
	prop, tier := a[0], a[1]
	shard, _ := strconv.Atoi(a[2])
	n, _ := strconv.Atoi(a[3])
	resFile, progFile := a[4], a[5]
	r := scen.Get(prop)
	if r == nil {
		os.Exit(2)
	}
	pf, _ := os.Create(progFile)
	ctx := &scen.Ctx{Prop: prop, Tier: tier, Seed: seed(), Shard: shard, NShards: n, R: mon.NewResult(prop), Dir: verifDir()}
	ctx.SetProgress(pf)
	if len(a) > 6 {
		if b, err := os.ReadFile(a[6]); err == nil {
			_ = json.Unmarshal(b, &ctx.Replay)
		}
	}
	// the result is also written every few seconds, so that a worker killed by the watchdog (or by a crash of the code
	// under test) does not take what it had already observed - violations included - with it
	stopFlush := make(chan struct{})
	flushed := make(chan struct{})
	go func() {
		defer close(flushed)
		for {
			select {
			case <-stopFlush:
				return
			case <-time.After(3 * time.Second):
				if b, err := ctx.R.Snapshot(); err == nil {
					tmp := resFile + ".tmp"
					if os.WriteFile(tmp, b, 0o644) == nil {
						_ = os.Rename(tmp, resFile)
					}
				}
			}
		}
	}()
	r.Run(ctx)
	if f := os.Getenv("VERIF_HEAPPROFILE"); f != "" { // debugging aid for the harness' own memory use
		runtime.GC()
		if hf, err := os.Create(f); err == nil {
			_ = pprof.WriteHeapProfile(hf)
			hf.Close()
		}
	}
	close(stopFlush)
	<-flushed
	ctx.R.Freeze()
	b, err := json.Marshal(ctx.R)
	if err != nil {
		fmt.Fprintf(os.Stderr, "cannot marshal result: %v\n", err)
		os.Exit(3)
	}
	if err := os.WriteFile(resFile, b, 0o644); err != nil {
		os.Exit(3)
	}
	os.Exit(0)
}

func replay(path string) int {
	b, err := os.ReadFile(path)
	if err != nil {
		fmt.Fprintf(os.Stderr, "BROKEN: %v\n", err)
		return 2
	}
	var rp struct {
		Property string                 `json:"property"`
		Tier     string                 `json:"tier"`
		Seed     int64                  `json:"seed"`
		Scenario map[string]interface{} `json:"scenario"`
	}
	if err := json.Unmarshal(b, &rp); err != nil {
		fmt.Fprintf(os.Stderr, "BROKEN: %v\n", err)
		return 2
	}
	os.Setenv("VERIF_SEED", strconv.FormatInt(rp.Seed, 10))
	os.Setenv("VERIF_REPLAYING", "1")
	if rp.Scenario == nil {
		rp.Scenario = map[string]interface{}{}
	}
	return supervise(rp.Property, rp.Tier, rp.Scenario)
}
