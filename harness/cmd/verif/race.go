//go:build verif

package main

import "verif/mon"

func addRaceReports(total *mon.Result, base, dir string) { scanRaceLogs(total, base) }
