//go:build verif

package main

import (
	"os"
	"path/filepath"
	"regexp"
	"sort"
	"strings"

	"verif/mon"
)

var raceFuncRe = regexp.MustCompile(`^\s+([^\s(]+(?:\([^)]*\))?[^\s(]*)\(`)

// scanRaceLogs parses GORACE log files: every "WARNING: DATA RACE" block becomes a violation whose signature is the
// pair of top-most repository frames (function names + access kind, line numbers stripped).
func scanRaceLogs(total *mon.Result, base string) {
	files, _ := filepath.Glob(base + ".race.*")
	for _, f := range files {
		b, err := os.ReadFile(f)
		if err != nil {
			continue
		}
		blocks := strings.Split(string(b), "WARNING: DATA RACE")
		for _, blk := range blocks[1:] {
			total.Obs("race_reports", 1)
			if end := strings.Index(blk, "=================="); end >= 0 {
				blk = blk[:end]
			}
			sig, inRepo, harnessOnly := raceSignature(blk)
			if harnessOnly {
				total.Obs("harness_only_race_reports", 1)
				total.Break("data race with both accesses in harness code (a harness bug, not a property violation): " + sig + "\n" + blk)
				continue
			}
			if !inRepo {
				total.Obs("race_reports_outside_repo", 1)
				continue
			}
			total.Violate(mon.Violation{Signature: "C18/race/" + sig, Detail: blk, Witness: blk, Scenario: map[string]interface{}{"kind": "race"}})
		}
	}
}

func raceSignature(blk string) (sig string, inRepo bool, harnessOnly bool) {
	// sections: "<Access kind> at 0x... by goroutine N:" followed by frames; then "Previous <kind> at ..."
	lines := strings.Split(blk, "\n")
	type acc struct {
		kind         string
		top          string // top-most repo frame
		any          string // top-most frame at all
		harness      bool
		firstHarness string
	}
	var accs []acc
	cur := -1
	for _, l := range lines {
		t := strings.TrimSpace(l)
		if strings.Contains(t, " at 0x") && strings.Contains(t, "by ") && (strings.HasPrefix(t, "Read") || strings.HasPrefix(t, "Write") || strings.HasPrefix(t, "Previous") || strings.HasPrefix(t, "Atomic")) {
			k := "R"
			if strings.Contains(strings.ToLower(t), "write") {
				k = "W"
			}
			accs = append(accs, acc{kind: k})
			cur = len(accs) - 1
			continue
		}
		if strings.HasPrefix(t, "Goroutine ") {
			cur = -1
			continue
		}
		if cur >= 0 {
			if m := raceFuncRe.FindStringSubmatch(l); m != nil && !strings.Contains(l, ".go:") {
				fn := m[1]
				if strings.HasPrefix(fn, "verif/") || strings.HasPrefix(fn, "main.") {
					accs[cur].harness = true
					if accs[cur].firstHarness == "" {
						accs[cur].firstHarness = fn
					}
				}
				if accs[cur].any == "" {
					accs[cur].any = fn
				}
				if accs[cur].top == "" && strings.HasPrefix(fn, "github.com/datastax/cql-proxy/") {
					accs[cur].top = strings.TrimPrefix(fn, "github.com/datastax/cql-proxy/")
				}
			}
		}
	}
	var parts []string
	harness := 0
	for _, a := range accs {
		if a.top != "" {
			inRepo = true
			parts = append(parts, a.top+"|"+a.kind)
		} else {
			if a.harness {
				parts = append(parts, a.firstHarness+"|"+a.kind)
				harness++
			} else {
				parts = append(parts, a.any+"|"+a.kind)
			}
		}
	}
	sort.Strings(parts)
	harnessOnly = len(accs) > 0 && harness == len(accs)
	return strings.Join(parts, "~"), inRepo, harnessOnly
}
