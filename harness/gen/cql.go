// Package gen holds input generators whose ground truth is attached by construction.
//
// cql.go: a PRNG-driven generator of CQL statements for property C06 (the idempotency classifier).  Every production
// contributes to the statement's ground truth (see DESIGN.md appendix D); the generator never looks at the code under
// test.  Statements are kept as token lists so that re-spellings (keyword case, whitespace, terminator) can be made
// without ever touching the inside of a string literal or a quoted identifier.
package gen

import (
	"fmt"
	"hash/fnv"
	"math/rand"
	"sort"
	"strings"
)

// Truth is the ground-truth class of a statement.
type Truth uint8

const (
	Idemp    Truth = iota // built only from literals, bind markers and set/map additions: must be reported idempotent
	NonIdemp              // contains a documented non-idempotent construct: must be reported not idempotent
	Either                // the property is silent: only stability and totality are checked
)

func (t Truth) String() string { return [...]string{"IDEMP", "NONIDEMP", "EITHER"}[t] }

// Kind is the lexical class of a token as far as re-spelling is concerned.
type Kind uint8

const (
	KKw   Kind = iota // keyword (incl. true/false/null/NaN/Infinity): letter case may be changed
	KFn               // unquoted function name or keyspace qualifier of a call: letter case may be changed
	KId               // unquoted identifier (left alone)
	KQId              // quoted identifier (never touched)
	KLit              // number, hex, uuid, duration literal (never touched)
	KStr              // '...' string literal (never touched)
	KDStr             // $$...$$ string literal (never touched)
	KPun              // punctuation: whitespace around it is optional
	KOp               // operator: the generator always keeps whitespace on both sides
)

type Tok struct {
	S string
	K Kind
	C string // class used in the shape key
}

// Reason is one documented non-idempotent construct present in a statement.
type Reason struct {
	Name   string // e.g. "now()", "system.uuid()", "list-append", "lwt-if-exists"
	Parent string // immediate nesting context of a call (e.g. "set-first", "map-value", "arg", "top"), "" for clause-level reasons
	Slot   string // where in the statement (e.g. "insert-value", "where", "update-colop")
	Batch  bool   // inside a batch child
	Text   string // spelling of the construct
	Pos    int    // token index at which the construct was recorded (inside or right after it)
}

func (r Reason) Key() string {
	s := r.Name
	if r.Parent != "" {
		s += "/in=" + r.Parent
	}
	if r.Batch {
		s += "/batch-child"
	}
	return s
}

// Node is one term of a statement (a tree: collection / UDT / tuple / call / cast nodes have children).
type Node struct {
	Kind       string // lit:int, lit:string, ..., bind:positional, bind:named, list, set, map, udt, tuple, call, nicall, cast
	Role       string // nesting context: top, list, set-first, set, map-key-first, map-key, map-value, udt-field, tuple-first, tuple, arg, cast, ...
	Slot       string // statement slot of the root term
	Start, End int    // token range
	Kids       []*Node
	up         *Node
}

// Walk visits n and its descendants.
func (n *Node) Walk(f func(*Node)) {
	f(n)
	for _, k := range n.Kids {
		k.Walk(f)
	}
}

// JoinToks spells a token slice canonically.
func JoinToks(toks []Tok) string {
	s := Stmt{Toks: toks}
	return s.Text()
}

// Stmt is a generated statement with its ground truth.
type Stmt struct {
	Terms      []*Node // root terms
	Toks       []Tok
	Truth      Truth
	Reasons    []Reason // non-empty iff Truth == NonIdemp
	EitherWhy  []string // non-empty iff Truth == Either
	Constructs []string // productions used (sorted, distinct)
	Children   [][2]int // token ranges of the child statements of a batch (without the optional ';')
	Nested     bool     // contains >= 1 nested term or clause beyond the minimal form
	Dollar     bool     // contains a $$...$$ literal
	MaxDepth   int
}

func wordy(k Kind) bool { return k != KPun && k != KOp }

// needSpace reports whether whitespace is mandatory between a and b.
func needSpace(a, b Tok) bool {
	if a.K == KOp || b.K == KOp {
		return true
	}
	if wordy(a.K) && wordy(b.K) {
		return true
	}
	if a.K == KPun && b.K == KPun && a.S == ":" && b.S == ":" {
		return true
	}
	return false
}

// Text is the canonical spelling: single spaces where whitespace is mandatory, one after each comma.
func (s *Stmt) Text() string {
	var sb strings.Builder
	for i, t := range s.Toks {
		if i > 0 && (needSpace(s.Toks[i-1], t) || s.Toks[i-1].S == ",") {
			sb.WriteByte(' ')
		}
		sb.WriteString(t.S)
	}
	return sb.String()
}

// Standard whitespace alphabet of the stability check, and the one including the lone carriage return.
var (
	WsStd = []string{" ", "\t", "\n", "\r\n", " ", " "}
	WsCR  = []string{" ", "\t", "\n", "\r\n", "\r", "\r"}
)

func wsRun(r *rand.Rand, alpha []string) string {
	n := 1
	if r.Intn(4) == 0 {
		n += r.Intn(3)
	}
	if n == 1 {
		return alpha[r.Intn(len(alpha))]
	}
	var sb strings.Builder
	for i := 0; i < n; i++ {
		sb.WriteString(alpha[r.Intn(len(alpha))])
	}
	return sb.String()
}

func respellCase(r *rand.Rand, s string, mode int) string {
	switch mode {
	case 0:
		return strings.ToLower(s)
	case 1:
		return strings.ToUpper(s)
	}
	b := []byte(s)
	for i, c := range b {
		if c >= 'a' && c <= 'z' && r.Intn(2) == 0 {
			b[i] = c - 32
		} else if c >= 'A' && c <= 'Z' && r.Intn(2) == 0 {
			b[i] = c + 32
		}
	}
	return string(b)
}

// Respell writes the statement with random keyword/function-name case, random whitespace runs from alpha between tokens
// (mandatory gaps always get >= 1 element, optional gaps get one half of the time), optional leading/trailing whitespace
// and an optional trailing ';'.  changeCase=false keeps every letter as generated (used by the lone-CR sub-check so that
// only whitespace differs).
func (s *Stmt) Respell(r *rand.Rand, alpha []string, changeCase bool) string {
	var sb strings.Builder
	mode := r.Intn(4)
	if r.Intn(5) == 0 {
		sb.WriteString(wsRun(r, alpha))
	}
	for i, t := range s.Toks {
		if i > 0 {
			if needSpace(s.Toks[i-1], t) || r.Intn(2) == 0 {
				sb.WriteString(wsRun(r, alpha))
			}
		}
		if changeCase && (t.K == KKw || t.K == KFn) {
			sb.WriteString(respellCase(r, t.S, mode))
		} else {
			sb.WriteString(t.S)
		}
	}
	switch r.Intn(4) {
	case 0:
		sb.WriteString(";")
	case 1:
		sb.WriteString(wsRun(r, alpha) + ";")
	case 2:
		sb.WriteString(";" + wsRun(r, alpha))
	}
	return sb.String()
}

// RespellCR re-spells whitespace only (letters and terminator stay as generated), from the alphabet that includes the lone
// CR, and guarantees that at least one lone CR sits between two tokens.  twin is the same spelling with every lone CR of a
// gap replaced by a space, so the pair differs in nothing but lone CRs.  ok=false if the statement has fewer than two tokens.
func (s *Stmt) RespellCR(r *rand.Rand) (cr, twin string, ok bool) {
	if len(s.Toks) < 2 {
		return "", "", false
	}
	forced := 1 + r.Intn(len(s.Toks)-1) // the gap before token `forced` gets a lone CR
	var sb, tb strings.Builder
	for i, t := range s.Toks {
		if i > 0 {
			gap := ""
			switch {
			case i == forced:
				gap = "\r"
				if r.Intn(3) == 0 {
					gap += " "
				}
			case needSpace(s.Toks[i-1], t) || r.Intn(3) == 0:
				gap = wsRun(r, WsCR)
			}
			sb.WriteString(gap)
			for j := 0; j < len(gap); j++ {
				if gap[j] == '\r' && (j+1 == len(gap) || gap[j+1] != '\n') {
					tb.WriteByte(' ')
				} else {
					tb.WriteByte(gap[j])
				}
			}
		}
		sb.WriteString(t.S)
		tb.WriteString(t.S)
	}
	return sb.String(), tb.String(), true
}

// Child returns child k of a batch as a statement of its own (nodes and reasons re-based).
func (s *Stmt) Child(k int) *Stmt {
	a, b := s.Children[k][0], s.Children[k][1]
	c := &Stmt{Toks: s.Toks[a:b], Nested: s.Nested, Dollar: s.Dollar}
	var shift func(n *Node) *Node
	shift = func(n *Node) *Node {
		m := &Node{Kind: n.Kind, Role: n.Role, Slot: n.Slot, Start: n.Start - a, End: n.End - a}
		for _, kid := range n.Kids {
			m.Kids = append(m.Kids, shift(kid))
		}
		return m
	}
	for _, n := range s.Terms {
		if n.Start >= a && n.End <= b {
			c.Terms = append(c.Terms, shift(n))
		}
	}
	for _, r := range s.Reasons {
		if r.Pos >= a && r.Pos < b {
			r.Batch = false
			c.Reasons = append(c.Reasons, r)
		}
	}
	c.Truth = Idemp
	if len(c.Reasons) > 0 {
		c.Truth = NonIdemp
	}
	return c
}

// Shape is the normalised token-class sequence (keywords upper-cased, identifiers/literals by class).
func (s *Stmt) Shape() string {
	var sb strings.Builder
	for i, t := range s.Toks {
		if i > 0 {
			sb.WriteByte(' ')
		}
		sb.WriteString(t.C)
	}
	return sb.String()
}

// ShapeHash is a short stable hash of Shape.
func (s *Stmt) ShapeHash() string {
	h := fnv.New64a()
	for _, t := range s.Toks {
		h.Write([]byte(t.C))
		h.Write([]byte{0})
	}
	return fmt.Sprintf("%016x", h.Sum64())
}

// ---------------------------------------------------------------------------------------------------------------------
// generator

// Mode says which ground-truth class a statement is generated for.
type Mode struct {
	Want     Truth
	MaxDepth int    // maximum term nesting depth
	Dollar   bool   // spell some string literals $$...$$
	Force    string // for NonIdemp: the construct to inject ("" = PRNG's choice); see NonIdempForces
}

// NonIdempForces lists the documented non-idempotent constructs the generator can inject.
var NonIdempForces = []string{"call", "call", "call", "call", "lwt", "lwt", "counter-update", "counter-batch", "list-append", "list-prepend",
	"list-remove", "delete-by-index", "delete-by-bind-marker", "ambiguous-bind-marker", "ambiguous-function", "not-dml"}

type g struct {
	r        *rand.Rand
	m        Mode
	roots    []*Node
	children [][2]int
	cur      *Node
	leaf     string
	toks     []Tok
	reasons  []Reason
	either   map[string]bool
	cons     map[string]bool
	nested   bool
	dollar   bool
	slot     string
	batch    bool
	budget   int
	depthMax int
	pCall    float64 // probability that a term site becomes a now()/uuid() call
	pEither  float64 // probability that a term site becomes an unknown call / cast
	wantCall bool    // a now()/uuid() call must still be placed
	force    string
	forced   bool
}

// Generate produces one statement of the wanted class.  The PRNG fully determines the result.
func Generate(r *rand.Rand, m Mode) *Stmt {
	for attempt := 0; ; attempt++ {
		x := &g{r: r, m: m, either: map[string]bool{}, cons: map[string]bool{}, budget: 6 + r.Intn(30)}
		if m.MaxDepth > 8 && r.Intn(10) == 0 {
			x.budget += r.Intn(200)
		}
		switch m.Want {
		case NonIdemp:
			x.force = m.Force
			if x.force == "" {
				x.force = NonIdempForces[r.Intn(len(NonIdempForces))]
			}
			x.wantCall = x.force == "call"
			if r.Intn(4) == 0 {
				x.pEither = 0.08
			}
			if r.Intn(6) == 0 {
				x.pCall = 0.05
			}
		case Either:
			x.pEither = 0.15 + 0.1*float64(attempt)
		}
		x.statement()
		s := &Stmt{Terms: x.roots, Children: x.children, Toks: x.toks, Reasons: x.reasons, Nested: x.nested, Dollar: x.dollar, MaxDepth: x.depthMax}
		for k := range x.either {
			s.EitherWhy = append(s.EitherWhy, k)
		}
		sort.Strings(s.EitherWhy)
		for k := range x.cons {
			s.Constructs = append(s.Constructs, k)
		}
		sort.Strings(s.Constructs)
		switch {
		case len(s.Reasons) > 0:
			s.Truth = NonIdemp
		case len(s.EitherWhy) > 0:
			s.Truth = Either
		default:
			s.Truth = Idemp
		}
		if s.Truth == m.Want || attempt > 60 {
			return s
		}
	}
}

func (x *g) begin(role string) *Node {
	n := &Node{Role: role, Slot: x.slot, Start: len(x.toks), up: x.cur}
	if x.cur == nil {
		x.roots = append(x.roots, n)
	} else {
		x.cur.Kids = append(x.cur.Kids, n)
	}
	x.cur = n
	return n
}

func (x *g) end(n *Node, kind string) {
	n.Kind, n.End = kind, len(x.toks)
	x.cur = n.up
}

func (x *g) emit(s string, k Kind, c string) { x.toks = append(x.toks, Tok{S: s, K: k, C: c}) }
func (x *g) kw(words ...string) {
	for _, w := range words {
		x.emit(x.kwCase(w), KKw, strings.ToUpper(w))
	}
}
func (x *g) pun(s string) { x.emit(s, KPun, s) }
func (x *g) op(s string)  { x.emit(s, KOp, s) }
func (x *g) use(c string) {
	x.cons[c] = true
	if strings.HasPrefix(c, "literal:") {
		x.leaf = "lit:" + c[8:]
	} else if strings.HasPrefix(c, "bind:") {
		x.leaf = c
	}
}
func (x *g) p(prob float64) bool { return x.r.Float64() < prob }

func (x *g) kwCase(w string) string {
	switch x.r.Intn(6) {
	case 0:
		return strings.ToLower(w)
	case 1:
		return respellCase(x.r, w, 2)
	}
	return strings.ToUpper(w)
}

// reserved words of CQL (Cassandra 3.11/4.x) plus every word the lexer under test or CQL's lexer treats specially.
var reserved = map[string]bool{}

func init() {
	for _, w := range strings.Fields(`add allow alter and apply asc authorize batch begin by columnfamily create default delete desc describe
drop entries execute from full grant if in index infinity insert into is keyspace limit materialized modify nan norecursive not null of on or
order primary rename replace revoke schema select set table to token truncate unlogged update use using view where with true false mbean mbeans
unset`) {
		reserved[w] = true
	}
}

var safeIdents = strings.Fields(`id k v c1 c2 col_a col_b name val data ts_col m s l tags scores addr user_id ck1 ck2 bucket f1 f2 x y z
a b c d e h item qty total emails labels attrs zip street city`)

// unreserved CQL keywords and function look-alikes that are valid column/table names
var unreservedIdents = strings.Fields(`key json values ttl timestamp counter contains like exists filtering type list map text int uuid timeuuid
date time writetime count user role static frozen tuple distinct as clustering keys now cast`)

func (x *g) rawIdent() string {
	for {
		n := 1 + x.r.Intn(10)
		b := make([]byte, n)
		const first = "abcdefghijklmnoqrstuvwxyzABCDEFGHIJKLMNOQRSTUVWXYZ" // no p/P: 'P…' collides with ISO-8601 durations in CQL's own lexer
		const rest = "abcdefghijklmnopqrstuvwxyzABCDEFGHIJKLMNOPQRSTUVWXYZ0123456789_"
		b[0] = first[x.r.Intn(len(first))]
		for i := 1; i < n; i++ {
			b[i] = rest[x.r.Intn(len(rest))]
		}
		s := string(b)
		if !reserved[strings.ToLower(s)] {
			return s
		}
	}
}

var quotedIdents = []string{`"Abc"`, `"with space"`, `"sel""ect"`, `"select"`, `"IF"`, `"now"`, `"a.b"`, `"x-y"`, `"ünï"`, `"1st"`, `"$$"`, `"it's"`, `"a;b"`}

// ident emits an identifier (column, table, field, bind name).
func (x *g) ident() string {
	var s string
	switch v := x.r.Intn(100); {
	case v < 68:
		s = safeIdents[x.r.Intn(len(safeIdents))]
		if x.r.Intn(8) == 0 {
			s = strings.ToUpper(s[:1]) + s[1:]
		}
		x.emit(s, KId, "i")
	case v < 82:
		s = x.rawIdent()
		x.emit(s, KId, "i")
		x.use("ident:random")
	case v < 90:
		s = unreservedIdents[x.r.Intn(len(unreservedIdents))]
		x.emit(s, KId, "i")
		x.use("ident:unreserved-keyword")
	default:
		s = quotedIdents[x.r.Intn(len(quotedIdents))]
		x.emit(s, KQId, "q")
		x.use("ident:quoted")
	}
	return s
}

func (x *g) plainIdent() string {
	s := safeIdents[x.r.Intn(len(safeIdents))]
	x.emit(s, KId, "i")
	return s
}

func (x *g) tableName() {
	if x.p(0.4) {
		x.ident()
		x.pun(".")
		x.use("table:qualified")
	}
	x.ident()
}

// ---------------------------------------------------------------------------------------------------------------------
// literals

const hexDigits = "0123456789abcdefABCDEF"

func (x *g) digits(n int) string {
	b := make([]byte, n)
	for i := range b {
		b[i] = byte('0' + x.r.Intn(10))
	}
	return string(b)
}

func (x *g) hexs(n int) string {
	b := make([]byte, n)
	for i := range b {
		b[i] = hexDigits[x.r.Intn(len(hexDigits))]
	}
	return string(b)
}

func (x *g) intLit() string {
	s := x.digits(1 + x.r.Intn(4))
	if x.r.Intn(12) == 0 {
		s = x.digits(19 + x.r.Intn(15))
	}
	if x.r.Intn(4) == 0 {
		s = "-" + s
	}
	return s
}

var stringBodies = []string{"", "abc", "it's", "'", "' q '", "'a", "a b\tc", "line1\nline2", "cr\rlf\r\nend", "now()", "uuid()", " IF EXISTS ", "x = x + 1", ";", "$", "$$", "$$x$$",
	"\"quoted\"", "héllo wörld ☃", "{\"a\": 1, \"b\": [1, 2]}", "?", ":name", "--", "/* c */", "\\", "%like%", "APPLY BATCH", "0x", "\x00", "[", "((("}

func (x *g) stringLit() {
	body := stringBodies[x.r.Intn(len(stringBodies))]
	if x.r.Intn(3) == 0 {
		body += x.rawIdent()
	}
	d := x.r.Intn(2) == 0 // drawn in both modes so that a statement and its dollar-quoted twin differ in nothing else
	if x.m.Dollar && !strings.Contains(body, "$") && d {
		// dollar-quoted: the body is taken literally, no '$' inside
		x.emit("$$"+body+"$$", KDStr, "$")
		x.dollar = true
		x.use("literal:dollar-string")
		x.leaf = "lit:dollar-string"
		return
	}
	x.emit("'"+strings.ReplaceAll(body, "'", "''")+"'", KStr, "s")
	x.use("literal:string")
	x.leaf = "lit:string"
}

// literal emits a constant and returns its term kind ("int" or "lit").
func (x *g) literal() string {
	switch v := x.r.Intn(100); {
	case v < 22:
		x.emit(x.intLit(), KLit, "n")
		x.use("literal:int")
		return "int"
	case v < 45:
		x.stringLit()
	case v < 52: // float
		s := x.intLit()
		switch x.r.Intn(4) {
		case 0:
			s += "." + x.digits(1+x.r.Intn(3))
		case 1:
			s += "."
		case 2:
			s += []string{"e", "E"}[x.r.Intn(2)] + []string{"", "+", "-"}[x.r.Intn(3)] + x.digits(1+x.r.Intn(2))
		default:
			s += "." + x.digits(x.r.Intn(3)) + []string{"e", "E"}[x.r.Intn(2)] + []string{"", "+", "-"}[x.r.Intn(3)] + x.digits(1)
		}
		x.emit(s, KLit, "f")
		x.use("literal:float")
	case v < 58:
		x.emit([]string{"0x", "0X"}[x.r.Intn(2)]+x.hexs(2*x.r.Intn(6)), KLit, "h")
		x.use("literal:hex")
	case v < 65:
		x.emit(x.hexs(8)+"-"+x.hexs(4)+"-"+x.hexs(4)+"-"+x.hexs(4)+"-"+x.hexs(12), KLit, "u")
		x.use("literal:uuid")
	case v < 73:
		x.duration()
	case v < 81:
		x.emit(x.kwCase([]string{"true", "false"}[x.r.Intn(2)]), KKw, "BOOL")
		x.use("literal:bool")
	case v < 88:
		x.emit(x.kwCase("null"), KKw, "NULL")
		x.use("literal:null")
	case v < 92:
		x.emit([]string{"", "-"}[x.r.Intn(2)]+x.kwCase("NaN"), KKw, "NAN")
		x.use("literal:nan")
	case v < 96:
		x.emit([]string{"", "-"}[x.r.Intn(2)]+x.kwCase("Infinity"), KKw, "INF")
		x.use("literal:infinity")
	default:
		x.emit(x.intLit(), KLit, "n")
		x.use("literal:int")
		return "int"
	}
	return "lit"
}

func (x *g) duration() {
	sign := []string{"", "", "-"}[x.r.Intn(3)]
	var s string
	switch x.r.Intn(4) {
	case 0, 1: // 1h30m
		units := []string{"y", "mo", "w", "d", "h", "m", "s", "ms", "us", "µs", "ns", "Y", "MO", "H", "Ms", "NS"}
		n := 1 + x.r.Intn(3)
		for i := 0; i < n; i++ {
			s += x.digits(1+x.r.Intn(3)) + units[x.r.Intn(len(units))]
		}
		x.use("literal:duration-units")
	case 2: // ISO 8601 designators
		parts := [][2]string{{"Y", ""}, {"M", ""}, {"D", ""}, {"H", "T"}, {"M", "T"}, {"S", "T"}}
		if x.r.Intn(5) == 0 {
			s = "P" + x.digits(1+x.r.Intn(2)) + "W"
		} else {
			s = "P"
			tdone, any := false, false
			for _, pt := range parts {
				if x.r.Intn(2) == 0 {
					continue
				}
				if pt[1] == "T" && !tdone {
					s += "T"
					tdone = true
				}
				s += x.digits(1+x.r.Intn(2)) + pt[0]
				any = true
			}
			if !any {
				s += "1D"
			}
		}
		x.use("literal:duration-iso")
	default: // ISO 8601 alternative
		s = "P" + x.digits(4) + "-" + x.digits(2) + "-" + x.digits(2) + "T" + x.digits(2) + ":" + x.digits(2) + ":" + x.digits(2)
		x.use("literal:duration-iso-alt")
	}
	x.emit(sign+s, KLit, "d")
}

func (x *g) bind() {
	if x.r.Intn(2) == 0 {
		x.pun("?")
		x.use("bind:positional")
		return
	}
	x.pun(":")
	if x.r.Intn(8) == 0 {
		x.emit(`"Bind Name"`, KQId, "q")
	} else {
		x.plainIdent()
	}
	x.use("bind:named")
}

// ---------------------------------------------------------------------------------------------------------------------
// terms

var otherFuncs = []string{"toTimestamp", "currentTimestamp", "currentTimeUUID", "blobAsInt", "intAsBlob", "minTimeuuid", "maxTimeuuid", "dateOf", "toDate", "myfn",
	"nowx", "uuids", "now_", "unow", "uuid4", "token2", "textAsBlob", "abs"}

var castTypes = [][]string{{"int"}, {"text"}, {"timeuuid"}, {"bigint"}, {"list", "<", "int", ">"}, {"set", "<", "text", ">"}, {"map", "<", "text", ",", "int", ">"},
	{"frozen", "<", "list", "<", "int", ">", ">"}, {"tuple", "<", "int", ",", "text", ">"}, {"\"MyType\""}, {"map", "<", "text", ",", "frozen", "<", "set", "<", "uuid", ">", ">", ">"}}

// nonIdempCall emits a now()/uuid() call in one of its spellings and records the reason.
func (x *g) nonIdempCall(parent string) {
	start := len(x.toks)
	fn := []string{"now", "uuid"}[x.r.Intn(2)]
	name := fn + "()"
	switch x.r.Intn(6) {
	case 0, 1: // system.fn
		x.emit(x.kwCase("system"), KFn, "SYSTEM")
		x.pun(".")
		name = "system." + name
		x.use("call:" + fn + ":system-qualified")
	case 2: // "system".fn  (a quoted lower-case name is the same name)
		x.emit(`"system"`, KQId, "SYSTEM")
		x.pun(".")
		name = "system." + name
		x.use("call:" + fn + ":quoted-system-qualified")
	default:
		x.use("call:" + fn + ":unqualified")
	}
	if x.r.Intn(6) == 0 {
		x.emit(`"`+fn+`"`, KQId, strings.ToUpper(fn))
		x.use("call:" + fn + ":quoted-name")
	} else {
		x.emit(x.kwCase(fn), KFn, strings.ToUpper(fn))
	}
	x.pun("(")
	x.pun(")")
	var sb strings.Builder
	for _, t := range x.toks[start:] {
		sb.WriteString(t.S)
	}
	x.reasons = append(x.reasons, Reason{Name: name, Parent: parent, Slot: x.slot, Batch: x.batch, Text: sb.String(), Pos: start})
	x.wantCall = false
	x.pCall *= 0.2
}

// otherCall emits a call of a function other than now/uuid (or of now/uuid in a foreign keyspace, or a case-sensitive
// look-alike): the property is silent about those.
func (x *g) otherCall(depth int) {
	x.either["function-call"] = true
	switch x.r.Intn(10) {
	case 0: // user function in a foreign keyspace that happens to be called now/uuid
		x.plainIdent()
		x.pun(".")
		x.emit([]string{"now", "uuid"}[x.r.Intn(2)], KFn, "f")
		x.use("call:other:foreign-keyspace-now")
	case 1: // quoted, different case => a different function
		x.emit([]string{`"NOW"`, `"Uuid"`, `"Now"`}[x.r.Intn(3)], KQId, "f")
		x.use("call:other:quoted-case-variant")
	case 2:
		x.plainIdent()
		x.pun(".")
		x.emit(otherFuncs[x.r.Intn(len(otherFuncs))], KFn, "f")
		x.use("call:other:qualified")
	default:
		x.emit(otherFuncs[x.r.Intn(len(otherFuncs))], KFn, "f")
		x.use("call:other")
	}
	x.pun("(")
	n := x.r.Intn(3)
	for i := 0; i < n; i++ {
		if i > 0 {
			x.pun(",")
		}
		if x.r.Intn(4) == 0 {
			x.plainIdent() // column reference argument
			x.use("call:arg-identifier")
		} else {
			x.term(depth+1, "arg")
		}
	}
	x.pun(")")
}

func (x *g) cast(depth int) {
	x.either["cast"] = true
	x.use("term:cast")
	x.pun("(")
	for _, t := range castTypes[x.r.Intn(len(castTypes))] {
		switch t {
		case "<", ">", ",":
			x.pun(t)
		default:
			if t[0] == '"' {
				x.emit(t, KQId, "t")
			} else {
				x.emit(t, KId, "t")
			}
		}
	}
	x.pun(")")
	x.term(depth+1, "cast")
}

// term emits a term and returns its top-level kind: int, lit, bind, list, curly (set/map), udt, tuple, call, nicall, cast.
// role names the immediate nesting context for the reason bookkeeping.
func (x *g) term(depth int, role string) string {
	n := x.begin(role)
	top, kind := x.term1(depth, role)
	x.end(n, kind)
	return top
}

func (x *g) term1(depth int, role string) (top, kind string) {
	if depth > x.depthMax {
		x.depthMax = depth
	}
	if depth > 0 {
		x.nested = true
	}
	x.budget--
	leafOnly := depth >= x.m.MaxDepth || x.budget <= 0
	if x.wantCall {
		// the mandatory call goes here with some probability, or somewhere below a container placed here
		if leafOnly || x.p(0.4) {
			x.nonIdempCall(role)
			return "nicall", "nicall"
		}
		if x.p(0.6) {
			return x.container(depth, true)
		}
	}
	if x.pCall > 0 && x.p(x.pCall) {
		x.nonIdempCall(role)
		return "nicall", "nicall"
	}
	if x.pEither > 0 && x.p(x.pEither) {
		if leafOnly || x.p(0.6) {
			x.otherCall(depth)
			return "call", "call"
		}
		x.cast(depth)
		return "cast", "cast"
	}
	if leafOnly || x.p(0.62) {
		if x.p(0.2) {
			x.bind()
			return "bind", x.leaf
		}
		t := x.literal()
		return t, x.leaf
	}
	return x.container(depth, false)
}

// container emits a collection / UDT / tuple literal.  carry=true hands the pending mandatory call to one random element.
func (x *g) container(depth int, carry bool) (top, kind string) {
	n := 1 + x.r.Intn(3)
	if x.r.Intn(10) == 0 {
		n += x.r.Intn(6)
	}
	carrier := -1
	if carry {
		carrier = x.r.Intn(n)
		x.wantCall = false
	}
	elem := func(role string, mine bool) {
		if mine {
			x.wantCall = true
		}
		x.term(depth+1, role)
	}
	pos := func(i int) string {
		if i == 0 {
			return "-first"
		}
		return ""
	}
	switch x.r.Intn(6) {
	case 0: // list
		x.use("term:list")
		x.pun("[")
		if !carry && x.r.Intn(10) == 0 {
			n = 0
			x.use("term:list-empty")
		}
		for i := 0; i < n; i++ {
			if i > 0 {
				x.pun(",")
			}
			elem("list", i == carrier)
		}
		x.pun("]")
		return "list", "list"
	case 1: // set
		x.use("term:set")
		x.pun("{")
		if !carry && x.r.Intn(10) == 0 {
			n = 0
			x.use("term:set-empty")
		}
		for i := 0; i < n; i++ {
			if i > 0 {
				x.pun(",")
			}
			elem("set"+pos(i), i == carrier)
		}
		x.pun("}")
		return "curly", "set"
	case 2: // map
		x.use("term:map")
		x.pun("{")
		keySide := x.r.Intn(2) == 0
		for i := 0; i < n; i++ {
			if i > 0 {
				x.pun(",")
			}
			elem("map-key"+pos(i), i == carrier && keySide)
			x.pun(":")
			elem("map-value", i == carrier && !keySide)
		}
		x.pun("}")
		return "curly", "map"
	case 3: // UDT literal
		x.use("term:udt")
		x.pun("{")
		for i := 0; i < n; i++ {
			if i > 0 {
				x.pun(",")
			}
			if x.r.Intn(6) == 0 {
				x.emit(`"Field"`, KQId, "q")
			} else {
				x.plainIdent()
			}
			x.pun(":")
			elem("udt-field", i == carrier)
		}
		x.pun("}")
		return "udt", "udt"
	default: // tuple
		x.use("term:tuple")
		x.pun("(")
		for i := 0; i < n; i++ {
			if i > 0 {
				x.pun(",")
			}
			elem("tuple"+pos(i), i == carrier)
		}
		x.pun(")")
		return "tuple", "tuple"
	}
}

// ---------------------------------------------------------------------------------------------------------------------
// clauses and statements

func (x *g) reason(name, text string) {
	x.reasons = append(x.reasons, Reason{Name: name, Slot: x.slot, Batch: x.batch, Text: text, Pos: len(x.toks) - 1})
	x.forced = true
}

func (x *g) intOrBind() {
	if x.p(0.7) {
		x.emit(x.digits(1+x.r.Intn(6)), KLit, "n")
	} else {
		x.bind()
	}
}

// using emits USING TTL/TIMESTAMP (one or two objectives); tsOnly restricts it to what DELETE's grammar allows.
func (x *g) using(tsOnly bool) {
	x.kw("USING")
	x.nested = true
	if tsOnly {
		x.kw("TIMESTAMP")
		x.intOrBind()
		x.use("using:timestamp")
		return
	}
	objs := []string{"TTL", "TIMESTAMP"}
	x.r.Shuffle(2, func(i, j int) { objs[i], objs[j] = objs[j], objs[i] })
	x.kw(objs[0])
	x.intOrBind()
	x.use("using:" + strings.ToLower(objs[0]))
	if x.p(0.4) {
		x.kw("AND", objs[1])
		x.intOrBind()
		x.use("using:two-objectives")
	}
}

var relOps = []string{"=", "<", ">", "<=", ">=", "!="}

func (x *g) relOp() { x.op(relOps[x.r.Intn(len(relOps))]) }

func (x *g) termList(parent string, min int) {
	n := min + x.r.Intn(3)
	x.pun("(")
	for i := 0; i < n; i++ {
		if i > 0 {
			x.pun(",")
		}
		x.term(1, parent)
	}
	x.pun(")")
}

func (x *g) identList() int {
	n := 1 + x.r.Intn(3)
	x.pun("(")
	for i := 0; i < n; i++ {
		if i > 0 {
			x.pun(",")
		}
		x.ident()
	}
	x.pun(")")
	return n
}

func (x *g) relation(depth int) {
	switch v := x.r.Intn(100); {
	case v < 40:
		x.ident()
		x.relOp()
		x.term(0, "top")
		x.use("rel:op")
	case v < 50:
		x.ident()
		x.kw("IN")
		if x.p(0.3) {
			x.bind()
			x.use("rel:in-marker")
		} else {
			x.termList("in-list", 0)
			x.use("rel:in-values")
		}
		x.nested = true
	case v < 62: // multi-column
		n := x.identList()
		x.nested = true
		if x.p(0.5) {
			x.kw("IN")
			switch x.r.Intn(4) {
			case 0:
				x.bind()
				x.use("rel:tuple-in-marker")
			case 1:
				x.pun("(")
				x.pun(")")
				x.use("rel:tuple-in-empty")
			case 2:
				x.pun("(")
				m := 1 + x.r.Intn(3)
				for i := 0; i < m; i++ {
					if i > 0 {
						x.pun(",")
					}
					x.bind()
				}
				x.pun(")")
				x.use("rel:tuple-in-markers")
			default:
				x.pun("(")
				m := 1 + x.r.Intn(3)
				for i := 0; i < m; i++ {
					if i > 0 {
						x.pun(",")
					}
					x.pun("(")
					for j := 0; j < n; j++ {
						if j > 0 {
							x.pun(",")
						}
						x.term(2, "tuple-in-list")
					}
					x.pun(")")
				}
				x.pun(")")
				x.use("rel:tuple-in-tuples")
			}
		} else {
			x.relOp()
			if x.p(0.3) {
				x.bind()
				x.use("rel:tuple-op-marker")
			} else {
				x.pun("(")
				for j := 0; j < n; j++ {
					if j > 0 {
						x.pun(",")
					}
					x.term(1, "tuple-op-list")
				}
				x.pun(")")
				x.use("rel:tuple-op-tuple")
			}
		}
	case v < 69:
		x.kw("TOKEN")
		x.identList()
		x.relOp()
		x.term(0, "top")
		x.use("rel:token")
		x.nested = true
	case v < 76:
		x.ident()
		x.kw("CONTAINS")
		if x.p(0.5) {
			x.kw("KEY")
			x.use("rel:contains-key")
		} else {
			x.use("rel:contains")
		}
		x.term(0, "top")
		x.nested = true
	case v < 81:
		x.ident()
		x.kw("LIKE")
		x.term(0, "top")
		x.use("rel:like")
	case v < 86:
		x.ident()
		x.kw("IS", "NOT", "NULL")
		x.use("rel:is-not-null")
	case v < 93:
		x.ident()
		x.pun("[")
		x.term(1, "rel-element-index")
		x.pun("]")
		x.relOp()
		x.term(0, "top")
		x.use("rel:element")
		x.nested = true
	default:
		if depth >= 3 {
			x.ident()
			x.relOp()
			x.term(0, "top")
			x.use("rel:op")
			return
		}
		x.pun("(")
		x.relation(depth + 1)
		x.pun(")")
		x.use("rel:parenthesized")
		x.nested = true
	}
}

func (x *g) where() {
	save := x.slot
	x.slot = "where"
	x.kw("WHERE")
	n := 1
	if x.p(0.45) {
		n += 1 + x.r.Intn(3)
		x.nested = true
	}
	for i := 0; i < n; i++ {
		if i > 0 {
			x.kw("AND")
		}
		x.relation(0)
	}
	x.slot = save
}

// ifClause emits a lightweight-transaction clause; insert=true restricts it to IF NOT EXISTS.
func (x *g) ifClause(insert bool) {
	save := x.slot
	x.slot = "if"
	// no now()/uuid() inside the IF clause: the clause itself is the non-idempotent construct
	savedCall, savedWant := x.pCall, x.wantCall
	x.pCall, x.wantCall = 0, false
	defer func() { x.pCall, x.wantCall = savedCall, savedWant }()
	start := len(x.toks)
	x.kw("IF")
	name := ""
	switch {
	case insert:
		x.kw("NOT", "EXISTS")
		name = "lwt-if-not-exists"
	case x.p(0.35):
		x.kw("EXISTS")
		name = "lwt-if-exists"
	default:
		name = "lwt-if-condition"
		n := 1 + x.r.Intn(3)
		for i := 0; i < n; i++ {
			if i > 0 {
				x.kw("AND")
			}
			x.ident()
			switch x.r.Intn(5) {
			case 0:
				x.pun("[")
				x.term(1, "if-element-index")
				x.pun("]")
			case 1:
				x.pun(".")
				x.plainIdent()
			}
			if x.p(0.25) {
				x.kw("IN")
				if x.p(0.3) {
					x.bind()
				} else {
					x.termList("in-list", 1)
				}
			} else {
				x.relOp()
				x.term(0, "top")
			}
		}
	}
	var sb strings.Builder
	for i, t := range x.toks[start:] {
		if i > 0 {
			sb.WriteByte(' ')
		}
		sb.WriteString(t.S)
	}
	x.slot = save
	x.reason(name, sb.String())
	x.use(name)
	x.nested = true
}

func (x *g) wantLwt() bool {
	if x.force == "lwt" && !x.forced {
		return true
	}
	return x.m.Want == NonIdemp && x.p(0.04)
}

func (x *g) insert() {
	x.kw("INSERT", "INTO")
	x.tableName()
	if x.p(0.15) && !x.wantCall {
		x.slot = "insert-json"
		x.kw("JSON")
		switch x.r.Intn(4) {
		case 0:
			x.bind()
			x.use("insert:json-marker")
		default:
			x.emit([]string{`'{"id": 1, "v": "x"}'`, `'{}'`, `'{"k": [1, 2], "m": {"a": "it''s"}, "if": "now()"}'`, `'{"\"Q\"": null}'`}[x.r.Intn(4)], KStr, "s")
			x.use("insert:json")
		}
		if x.p(0.4) {
			x.kw("DEFAULT")
			x.kw([]string{"NULL", "UNSET"}[x.r.Intn(2)])
			x.use("insert:json-default")
			x.nested = true
		}
	} else {
		x.slot = "insert-value"
		n := 1 + x.r.Intn(4)
		if x.r.Intn(12) == 0 {
			n += x.r.Intn(12)
		}
		x.pun("(")
		for i := 0; i < n; i++ {
			if i > 0 {
				x.pun(",")
			}
			x.ident()
		}
		x.pun(")")
		x.kw("VALUES")
		x.pun("(")
		for i := 0; i < n; i++ {
			if i > 0 {
				x.pun(",")
			}
			x.term(0, "top")
		}
		x.pun(")")
		x.use("insert:values")
	}
	if x.wantLwt() {
		x.ifClause(true)
	}
	if x.p(0.3) {
		x.using(false)
	}
}

// colOp emits one of the five column-operation forms with a term of the wanted top-level kind and classifies it.
func (x *g) colOp(want string) {
	save := x.slot
	x.slot = "update-colop"
	x.nested = true
	col := x.ident()
	colTok := x.toks[len(x.toks)-1]
	form := x.r.Intn(5) // 0: c = c + t   1: c = c - t   2: c = t + c   3: c += t   4: c -= t
	switch want {
	case "list-append":
		form = []int{0, 3}[x.r.Intn(2)]
	case "list-prepend":
		form = 2
	case "list-remove":
		form = []int{1, 4}[x.r.Intn(2)]
	case "counter", "ambiguous-bind", "ambiguous-fn":
		form = []int{0, 1, 3, 4}[x.r.Intn(4)]
	case "set-add":
		form = []int{0, 3}[x.r.Intn(2)]
	}
	_ = col
	start := len(x.toks) - 1
	switch form {
	case 0, 1:
		x.op("=")
		x.toks = append(x.toks, colTok)
		x.op([]string{"+", "-"}[form])
	case 2:
		x.op("=")
	case 3:
		x.op("+=")
	case 4:
		x.op("-=")
	}
	formName := []string{"c=c+t", "c=c-t", "c=t+c", "c+=t", "c-=t"}[form]
	// the term
	kind := ""
	switch want {
	case "list-append", "list-prepend", "list-remove":
		x.use("term:list")
		x.pun("[")
		n := x.r.Intn(3)
		for i := 0; i < n; i++ {
			if i > 0 {
				x.pun(",")
			}
			x.term(1, "list")
		}
		x.pun("]")
		kind = "list"
	case "counter":
		x.emit(x.intLit(), KLit, "n")
		kind = "int"
	case "ambiguous-bind":
		x.bind()
		kind = "bind"
	case "ambiguous-fn":
		x.otherCall(0)
		delete(x.either, "function-call")
		kind = "call"
	case "set-add":
		if x.p(0.5) {
			x.use("term:set")
			x.pun("{")
			n := x.r.Intn(4)
			for i := 0; i < n; i++ {
				if i > 0 {
					x.pun(",")
				}
				x.term(1, "set"+map[bool]string{true: "-first", false: ""}[i == 0])
			}
			x.pun("}")
		} else {
			x.use("term:map")
			x.pun("{")
			n := 1 + x.r.Intn(3)
			for i := 0; i < n; i++ {
				if i > 0 {
					x.pun(",")
				}
				x.term(1, "map-key"+map[bool]string{true: "-first", false: ""}[i == 0])
				x.pun(":")
				x.term(1, "map-value")
			}
			x.pun("}")
		}
		kind = "curly"
	default: // anything
		kind = x.term(0, "top")
	}
	if form == 2 {
		x.op("+")
		x.toks = append(x.toks, colTok)
	}
	var sb strings.Builder
	for i, t := range x.toks[start:] {
		if i > 0 {
			sb.WriteByte(' ')
		}
		sb.WriteString(t.S)
	}
	text := sb.String()
	x.use("colop:" + formName + ":" + kind)
	// classification by the top-level kind of the term (appendix D)
	switch kind {
	case "curly":
		if form == 0 || form == 3 {
			// set/map addition: idempotent-preserving
		} else {
			x.either["colop:"+formName+":set-or-map"] = true // removal / prepend-form: the property is silent
		}
	case "list":
		x.reason(map[int]string{0: "list-append", 3: "list-append", 2: "list-prepend", 1: "list-remove", 4: "list-remove"}[form], text)
	case "int":
		if form == 2 {
			x.either["colop:c=t+c:int"] = true
		} else {
			x.reason("counter-update", text)
		}
	case "bind":
		if form == 2 {
			x.either["colop:c=t+c:bind"] = true
		} else {
			x.reason("ambiguous-colop-bind-marker", text)
		}
	case "call":
		if form == 2 {
			x.either["colop:c=t+c:call"] = true
		} else {
			x.reason("ambiguous-colop-function", text)
		}
	case "nicall":
		// already recorded by the call itself
	default: // udt, tuple, cast, other literal
		x.either["colop:"+formName+":"+kind] = true
	}
	x.slot = save
}

func (x *g) updateOp(first bool) {
	f := x.force
	if first && !x.forced {
		switch f {
		case "list-append", "list-prepend", "list-remove":
			x.colOp(f)
			return
		case "counter-update", "counter-batch":
			x.colOp("counter")
			return
		case "ambiguous-bind-marker":
			x.colOp("ambiguous-bind")
			return
		case "ambiguous-function":
			x.colOp("ambiguous-fn")
			return
		}
	}
	switch v := x.r.Intn(100); {
	case v < 50:
		x.slot = "update-assign"
		x.ident()
		x.op("=")
		x.term(0, "top")
		x.use("op:assign")
	case v < 62:
		x.slot = "update-element"
		x.ident()
		x.pun("[")
		x.term(1, "update-element-index")
		x.pun("]")
		x.op("=")
		x.term(0, "top")
		x.use("op:element")
		x.nested = true
	case v < 72:
		x.slot = "update-field"
		x.ident()
		x.pun(".")
		x.plainIdent()
		x.op("=")
		x.term(0, "top")
		x.use("op:field")
		x.nested = true
	case v < 90:
		x.colOp("set-add")
	default:
		if x.m.Want == Idemp {
			x.colOp("set-add")
		} else if x.m.Want == Either {
			x.colOp("")
		} else {
			x.colOp([]string{"", "list-append", "list-prepend", "list-remove", "counter", "ambiguous-bind", "ambiguous-fn"}[x.r.Intn(7)])
		}
	}
}

func (x *g) update() {
	x.kw("UPDATE")
	x.tableName()
	if x.p(0.3) {
		x.using(false)
	}
	x.kw("SET")
	n := 1
	if x.p(0.4) {
		n += 1 + x.r.Intn(3)
		x.nested = true
	}
	forceAt := 0
	for i := 0; i < n; i++ {
		if i > 0 {
			x.pun(",")
		}
		x.updateOp(i == forceAt)
	}
	x.where()
	if x.wantLwt() {
		x.ifClause(false)
	}
}

func (x *g) delete() {
	x.kw("DELETE")
	n := 0
	forceIdx := x.force == "delete-by-index" || x.force == "delete-by-bind-marker"
	if forceIdx || x.p(0.6) {
		n = 1 + x.r.Intn(3)
	}
	at := 0
	if n > 0 {
		at = x.r.Intn(n)
	}
	for i := 0; i < n; i++ {
		if i > 0 {
			x.pun(",")
		}
		start := len(x.toks)
		x.ident()
		v := x.r.Intn(100)
		if forceIdx && i == at && !x.forced {
			v = 0
		}
		switch {
		case v < 35:
			x.slot = "delete-index"
			x.nested = true
			x.pun("[")
			kind := ""
			switch {
			case x.force == "delete-by-index" && i == at && !x.forced:
				x.emit(x.intLit(), KLit, "n")
				kind = "int"
			case x.force == "delete-by-bind-marker" && i == at && !x.forced:
				x.bind()
				kind = "bind"
			case x.m.Want != NonIdemp:
				// a map key that is neither an integer literal nor a bind marker
				for {
					save, nroots := len(x.toks), len(x.roots)
					kind = x.term(1, "delete-index")
					if kind != "int" && kind != "bind" {
						break
					}
					x.toks, x.roots = x.toks[:save], x.roots[:nroots]
				}
			default:
				kind = x.term(1, "delete-index")
			}
			x.pun("]")
			var sb strings.Builder
			for _, t := range x.toks[start:] {
				sb.WriteString(t.S)
			}
			switch kind {
			case "int":
				x.reason("delete-by-index", sb.String())
			case "bind":
				x.reason("delete-by-bind-marker", sb.String())
			case "call":
				x.either["delete-index:function"] = true
			case "cast":
				x.either["delete-index:cast"] = true
			}
			x.use("delete:element:" + kind)
		case v < 50:
			x.pun(".")
			x.plainIdent()
			x.use("delete:field")
			x.nested = true
		default:
			x.use("delete:column")
		}
	}
	if n == 0 {
		x.use("delete:row")
	}
	x.kw("FROM")
	x.tableName()
	if x.p(0.3) {
		x.using(true)
	}
	x.where()
	if x.wantLwt() {
		x.ifClause(false)
	}
}

func (x *g) dml(kinds string) {
	k := kinds[x.r.Intn(len(kinds))]
	switch k {
	case 'i':
		x.use("stmt:insert")
		x.insert()
	case 'u':
		x.use("stmt:update")
		x.update()
	default:
		x.use("stmt:delete")
		x.delete()
	}
}

func (x *g) batchStmt() {
	x.nested = true
	x.kw("BEGIN")
	counter := x.force == "counter-batch"
	switch {
	case counter:
		x.kw("COUNTER")
		x.reason("counter-batch", "BEGIN COUNTER BATCH")
		x.use("batch:counter")
	case x.p(0.35):
		x.kw("UNLOGGED")
		x.use("batch:unlogged")
	default:
		x.use("batch:logged")
	}
	x.kw("BATCH")
	if x.p(0.3) {
		x.using(x.p(0.7))
	}
	n := x.r.Intn(5)
	if x.force != "" && !counter && n == 0 {
		n = 1
	}
	if n == 0 {
		x.use("batch:empty")
	}
	x.batch = true
	at := 0
	if n > 0 {
		at = x.r.Intn(n)
	}
	force := x.force
	for i := 0; i < n; i++ {
		// the forced construct goes into child `at`; other children are generated without a force
		if i == at {
			x.force = force
		} else {
			x.force = ""
		}
		cstart := len(x.toks)
		if counter {
			x.force = "counter-update"
			x.forced = false
			x.use("stmt:update")
			x.update()
		} else {
			x.dml(kindsFor(x.force))
		}
		x.children = append(x.children, [2]int{cstart, len(x.toks)})
		if x.p(0.5) {
			x.emit(";", KPun, ";")
			x.use("batch:child-semicolon")
		}
	}
	x.force = force
	x.batch = false
	x.slot = ""
	x.kw("APPLY", "BATCH")
}

// kindsFor returns the DML statement kinds in which the forced construct can be placed.
func kindsFor(force string) string {
	switch force {
	case "counter-update", "list-append", "list-prepend", "list-remove", "ambiguous-bind-marker", "ambiguous-function":
		return "u"
	case "delete-by-index", "delete-by-bind-marker":
		return "d"
	case "call":
		return "iiuud"
	}
	return "iiuudd"
}

var notDML = [][]string{
	{"USE", "ks1"}, {"USE", `"Ks"`}, {"CREATE", "TABLE", "t", "(", "a", "int", "PRIMARY", "KEY", ")"}, {"CREATE", "KEYSPACE", "ks", "WITH", "replication", "=", "{", "'class'", ":", "'SimpleStrategy'", "}"},
	{"ALTER", "TABLE", "t", "ADD", "b", "int"}, {"DROP", "TABLE", "IF", "EXISTS", "t"}, {"DROP", "KEYSPACE", "ks"}, {"TRUNCATE", "t"}, {"TRUNCATE", "TABLE", "ks", ".", "t"},
	{"GRANT", "SELECT", "ON", "t", "TO", "r"}, {"LIST", "ROLES"}, {"CREATE", "INDEX", "ON", "t", "(", "a", ")"}, {"REVOKE", "MODIFY", "ON", "KEYSPACE", "ks", "FROM", "r"},
	{"CREATE", "TYPE", "addr", "(", "street", "text", ")"}, {"ALTER", "KEYSPACE", "ks", "WITH", "durable_writes", "=", "false"}, {"DROP", "INDEX", "idx"},
}

func (x *g) notDMLStmt() {
	words := notDML[x.r.Intn(len(notDML))]
	for i, w := range words {
		switch {
		case strings.ContainsAny(w, "(){}:.,"):
			x.pun(w)
		case w == "=":
			x.op(w)
		case w[0] == '\'':
			x.emit(w, KStr, "s")
		case w[0] == '"':
			x.emit(w, KQId, "q")
		case w == strings.ToUpper(w):
			x.kw(w)
		default:
			x.emit(w, KId, "i")
		}
		_ = i
	}
	x.slot = "statement"
	x.reason("not-dml:"+strings.ToLower(words[0]), strings.Join(words, " "))
	x.use("stmt:" + strings.ToLower(words[0]))
}

func (x *g) selectStmt() {
	x.either["select"] = true
	x.use("stmt:select")
	x.kw("SELECT")
	switch x.r.Intn(4) {
	case 0:
		x.pun("*")
	case 1:
		x.emit("count", KFn, "f")
		x.pun("(")
		x.pun("*")
		x.pun(")")
	case 2:
		x.emit(x.kwCase("now"), KFn, "f")
		x.pun("(")
		x.pun(")")
	default:
		n := 1 + x.r.Intn(3)
		for i := 0; i < n; i++ {
			if i > 0 {
				x.pun(",")
			}
			x.ident()
		}
	}
	x.kw("FROM")
	x.tableName()
	if x.p(0.6) {
		x.where()
	}
	if x.p(0.2) {
		x.kw("LIMIT")
		x.emit(x.digits(2), KLit, "n")
	}
	if x.p(0.1) {
		x.kw("ALLOW", "FILTERING")
	}
}

func (x *g) statement() {
	if x.m.Want == NonIdemp && x.force == "not-dml" {
		x.notDMLStmt()
		return
	}
	if x.m.Want == Either && x.r.Intn(8) == 0 {
		x.selectStmt()
		return
	}
	if x.force == "counter-batch" || x.p(0.22) {
		x.batchStmt()
		x.use("stmt:batch")
		return
	}
	x.dml(kindsFor(x.force))
}

// SpellCase is the canonical spelling with the letter case of keywords/function names forced (0 lower, 1 upper); only >= 0
// restricts the change to that token.  Used to attribute an unstable verdict to a token.
func (s *Stmt) SpellCase(mode int, only int) string {
	var sb strings.Builder
	for i, t := range s.Toks {
		if i > 0 && (needSpace(s.Toks[i-1], t) || s.Toks[i-1].S == ",") {
			sb.WriteByte(' ')
		}
		if (t.K == KKw || t.K == KFn) && (only < 0 || only == i) {
			sb.WriteString(respellCase(nil, t.S, mode))
		} else {
			sb.WriteString(t.S)
		}
	}
	return sb.String()
}

// SpellWs spells the statement with sep in every mandatory gap and opt in every optional gap; only >= 0 restricts opt to the
// gap before that token (the other optional gaps stay empty).
func (s *Stmt) SpellWs(sep, opt string, only int) string {
	var sb strings.Builder
	for i, t := range s.Toks {
		if i > 0 {
			if needSpace(s.Toks[i-1], t) {
				sb.WriteString(sep)
			} else if only < 0 || only == i {
				sb.WriteString(opt)
			}
		}
		sb.WriteString(t.S)
	}
	return sb.String()
}

// Mandatory reports whether whitespace is mandatory before token i.
func (s *Stmt) Mandatory(i int) bool { return i > 0 && needSpace(s.Toks[i-1], s.Toks[i]) }
