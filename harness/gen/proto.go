// Package gen holds PRNG-driven generators of native-protocol traffic.  Everything here is built with the REFERENCE
// library (github.com/datastax/go-cassandra-native-protocol: message, primitive, frame); nothing from cql-proxy is
// imported, so what this package says about a message (its fields, its byte layout) is independent ground truth for
// the checks that use it.
//
// Requests:  RandomSpec (PRNG -> explicit ReqSpec) -> Build (ReqSpec -> *frame.Frame + Desc).  A caller may edit the
// spec between the two steps (e.g. set QueryId to an id the backend knows, force Select, pin the consistency).
// RandomRequest is the one-call form.  EncodeBody / EncodeRaw give the uncompressed bytes via the reference codec.
//
// Responses: Response(rng, v, kind) / RandomResponse(rng, v) over every RESULT kind and every ERROR code.
//
// Pitfalls of the reference library that the helpers here avoid (do not call these directly on generated frames):
//   - frame.Codec.EncodeFrame over-declares Header.BodyLength by 16 for a REQUEST with the TRACING flag
//     (uncompressedBodyLength adds a tracing id that encodeBodyUncompressed only writes for responses): use
//     EncodeRaw, which goes through ConvertToRawFrame (length = bytes actually written).
//   - maps (custom payload, named values) are written in Go map order: encode a frame ONCE and keep the bytes.
//   - flags are derived from the message fields without looking at the version (a Keyspace on v4 sets a flag the v4
//     decoder does not read): RandomSpec only sets an option where the version has it; Build does not re-check.
package gen

import (
	"bytes"
	"fmt"
	"math/rand"
	"net"
	"sort"
	"strings"

	"github.com/datastax/go-cassandra-native-protocol/datatype"
	"github.com/datastax/go-cassandra-native-protocol/frame"
	"github.com/datastax/go-cassandra-native-protocol/message"
	"github.com/datastax/go-cassandra-native-protocol/primitive"
)

// Versions are the protocol versions the proxy can be configured to accept.
var Versions = []primitive.ProtocolVersion{primitive.ProtocolVersion3, primitive.ProtocolVersion4, primitive.ProtocolVersion5,
	primitive.ProtocolVersionDse1, primitive.ProtocolVersionDse2}

// RequestOpCodes are the opcodes RandomSpec knows.
var RequestOpCodes = []primitive.OpCode{primitive.OpCodeQuery, primitive.OpCodeExecute, primitive.OpCodeBatch, primitive.OpCodePrepare}

func VersionName(v primitive.ProtocolVersion) string {
	switch v {
	case primitive.ProtocolVersion3:
		return "v3"
	case primitive.ProtocolVersion4:
		return "v4"
	case primitive.ProtocolVersion5:
		return "v5"
	case primitive.ProtocolVersionDse1:
		return "dsev1"
	case primitive.ProtocolVersionDse2:
		return "dsev2"
	}
	return fmt.Sprintf("v0x%02x", uint8(v))
}

func OpName(op primitive.OpCode) string {
	switch op {
	case primitive.OpCodeQuery:
		return "query"
	case primitive.OpCodeExecute:
		return "execute"
	case primitive.OpCodeBatch:
		return "batch"
	case primitive.OpCodePrepare:
		return "prepare"
	case primitive.OpCodeResult:
		return "result"
	case primitive.OpCodeError:
		return "error"
	}
	return fmt.Sprintf("op0x%02x", uint8(op))
}

// Consistencies are all consistency levels the reference codec accepts.
var Consistencies = []primitive.ConsistencyLevel{primitive.ConsistencyLevelAny, primitive.ConsistencyLevelOne, primitive.ConsistencyLevelTwo,
	primitive.ConsistencyLevelThree, primitive.ConsistencyLevelQuorum, primitive.ConsistencyLevelAll, primitive.ConsistencyLevelLocalQuorum,
	primitive.ConsistencyLevelEachQuorum, primitive.ConsistencyLevelSerial, primitive.ConsistencyLevelLocalSerial, primitive.ConsistencyLevelLocalOne}

// ---------------------------------------------------------------------------------------------------------------------
// content classes and size classes

// Content is the class of the filler bytes of a body.
type Content int

const (
	ContentRandom       Content = iota // incompressible
	ContentText                        // word-like text
	ContentCompressible                // long runs / repeated rows (compresses far better than 8:1)
)

func (c Content) String() string { return [...]string{"random", "text", "compressible"}[c] }

var words = strings.Fields("the quick brown fox jumps over lazy dog cassandra keyspace table column partition replica " +
	"quorum token ring node rack datacenter commit log memtable sstable compaction tombstone hint gossip")

const alpha64 = "ABCDEFGHIJKLMNOPQRSTUVWXYZabcdefghijklmnopqrstuvwxyz0123456789+/"

// Fill returns n filler bytes of the given class.  With textSafe the bytes are printable ASCII without quotes, so they can
// sit inside a CQL string literal.
func Fill(rng *rand.Rand, n int, class Content, textSafe bool) []byte {
	if n <= 0 {
		return []byte{}
	}
	b := make([]byte, n)
	switch class {
	case ContentRandom:
		rng.Read(b)
		if textSafe {
			for i := range b {
				b[i] = alpha64[b[i]&63]
			}
		}
	case ContentText:
		for i := 0; i < n; {
			w := words[rng.Intn(len(words))]
			i += copy(b[i:], w)
			if i < n {
				b[i] = ' '
				i++
			}
		}
	case ContentCompressible:
		if rng.Intn(2) == 0 { // one long run
			ch := byte('g' + rng.Intn(20)) // never a hex digit: a run of them behind a length byte 'T' would look like a request token
			if !textSafe && rng.Intn(2) == 0 {
				ch = 0
			}
			for i := range b {
				b[i] = ch
			}
		} else { // the same short row over and over
			row := []byte(fmt.Sprintf("row-%06d|alpha|beta|gamma;", rng.Intn(1000000)))
			for i := 0; i < n; {
				i += copy(b[i:], row)
			}
		}
	}
	return b
}

// SizeClassOf names the size class of a body of n bytes (the classes of the C03 cell table).
func SizeClassOf(n int) string {
	switch {
	case n < 64:
		return "<64B"
	case n < 1<<10:
		return "<1K"
	case n < 64<<10:
		return "<64K"
	case n < 1<<20:
		return "<1M"
	}
	return ">=1M"
}

// randBulk picks a filler size: a size class first (so small and large are equally likely), then a size inside it.
func randBulk(rng *rand.Rand, max int) int {
	if max <= 0 {
		return 0
	}
	bounds := []int{0, 48, 900, 60 << 10, 1000 << 10, 4 << 20}
	n := 1
	for n < len(bounds) && bounds[n-1] < max {
		n++
	}
	k := rng.Intn(n) // class index: 0 = no filler at all
	if k == 0 {
		return 0
	}
	lo, hi := bounds[k-1], bounds[k]
	if hi > max {
		hi = max
	}
	if hi <= lo {
		return hi
	}
	return lo + 1 + rng.Intn(hi-lo)
}

// ---------------------------------------------------------------------------------------------------------------------
// request specification

// ValueKind is the shape of one bound value.
type ValueKind int

const (
	ValRegular ValueKind = iota // 1-16 bytes
	ValNull                     // length -1
	ValUnset                    // length -2 (v4+)
	ValEmpty                    // length 0
	ValLarge                    // takes a share of ReqSpec.Bulk when BulkIn == "value", else 32-96 bytes
)

func (k ValueKind) String() string {
	return [...]string{"regular", "null", "unset", "empty", "large"}[k]
}

// ValueMode says how the values of a QUERY/EXECUTE are sent.
type ValueMode int

const (
	ValuesNone ValueMode = iota
	ValuesPositional
	ValuesNamed
)

// ChildSpec is one BATCH child.
type ChildSpec struct {
	Prepared bool   // prepared-id child (else query-string child)
	Id       []byte // the id of a prepared child (nil: 16 PRNG bytes)
	Values   []ValueKind
}

// ReqSpec is the complete, explicit description of one request.  Build is a pure function of it.
type ReqSpec struct {
	Version primitive.ProtocolVersion
	OpCode  primitive.OpCode // QUERY, EXECUTE, BATCH or PREPARE
	Stream  int16

	// Token, if non-empty, is embedded so that it survives verbatim in the uncompressed body: in the query text of a
	// QUERY/PREPARE (`... k = '<token>'`), as the whole first bound value of an EXECUTE (a value is added if there is
	// none), in the first child of a BATCH (its text, or its first value when it is a prepared child).
	Token string
	// Select makes the statement of a QUERY/PREPARE a SELECT; otherwise it is an INSERT or UPDATE.  (BATCH children are
	// always INSERT/UPDATE; an EXECUTE is whatever its id was prepared as.)
	Select bool
	// Update picks UPDATE instead of INSERT for a non-SELECT.
	Update bool

	Seed    int64   // seed of the PRNG for ids, values and filler
	Content Content // class of the filler and of the values
	Bulk    int     // filler bytes to add (0 = none)
	BulkIn  string  // where the filler goes: "query" (string literal), "value" (the ValLarge values), "paging" (paging state)

	Consistency primitive.ConsistencyLevel

	// QUERY / EXECUTE options
	ValueMode         ValueMode
	Values            []ValueKind
	SkipMetadata      bool
	PageSize          int32 // 0: flag not set
	PageSizeInBytes   bool  // DSE only, needs PageSize > 0
	PagingState       bool  // paging-state flag set
	PagingStateLen    int   // its length (0: empty but present); ignored when BulkIn == "paging"
	SerialConsistency *primitive.ConsistencyLevel
	DefaultTimestamp  *int64
	Keyspace          string                           // QUERY/EXECUTE/BATCH/PREPARE; v5 and DSEv2 only
	NowInSeconds      *int32                           // v5 only
	ContinuousPaging  *message.ContinuousPagingOptions // DSE only

	// EXECUTE
	QueryId          []byte // nil: 16 PRNG bytes
	ResultMetadataId []byte // nil: 16 PRNG bytes where the version has the field

	// BATCH
	BatchType primitive.BatchType
	Children  []ChildSpec

	// header decorations
	Tracing bool
	Payload map[string][]byte // custom payload (v4+); a "graph-source" key makes the proxy treat it as a graph request
}

func supportsKeyspace(v primitive.ProtocolVersion) bool {
	return v.SupportsQueryFlag(primitive.QueryFlagWithKeyspace)
}

func randValueKinds(rng *rand.Rand, v primitive.ProtocolVersion, n int) []ValueKind {
	out := make([]ValueKind, n)
	for i := range out {
		switch x := rng.Intn(20); {
		case x < 11:
			out[i] = ValRegular
		case x < 13:
			out[i] = ValNull
		case x < 15:
			if v.SupportsUnsetValues() {
				out[i] = ValUnset
			} else {
				out[i] = ValNull
			}
		case x < 17:
			out[i] = ValEmpty
		default:
			out[i] = ValLarge
		}
	}
	return out
}

// randCount picks a number of values/children in [lo, 64]: mostly small, sometimes exactly 64.
func randCount(rng *rand.Rand, lo int) int {
	switch x := rng.Intn(10); {
	case x < 2:
		return lo
	case x < 6:
		return lo + rng.Intn(4)
	case x < 9:
		return lo + rng.Intn(16)
	}
	if rng.Intn(3) == 0 {
		return 64
	}
	return lo + rng.Intn(65-lo)
}

func randID(rng *rand.Rand) []byte {
	n := 16
	if rng.Intn(5) == 0 {
		n = 1 + rng.Intn(64)
	}
	b := make([]byte, n)
	rng.Read(b)
	return b
}

func maybe(rng *rand.Rand) bool { return rng.Intn(10) < 3 }

// RandomSpec draws a request over the whole option space of (v, op).  maxBody bounds the filler; the encoded body is
// at most maxBody plus the fixed parts: under 1 kB when maxBody < 4096 (few values, few children), otherwise up to
// ~3 kB for a QUERY/EXECUTE with 64 values and 60-200 B per BATCH child (1 in 200 batches has 256-355 children).
func RandomSpec(rng *rand.Rand, v primitive.ProtocolVersion, op primitive.OpCode, maxBody int, token string) ReqSpec {
	s := ReqSpec{Version: v, OpCode: op, Stream: int16(rng.Intn(32000)), Token: token, Seed: rng.Int63(),
		Content: Content(rng.Intn(3)), Select: rng.Intn(2) == 0, Update: rng.Intn(2) == 0,
		Consistency: Consistencies[rng.Intn(len(Consistencies))], BulkIn: "query"}
	s.Bulk = randBulk(rng, maxBody)
	small := maxBody < 4096 // keep the fixed parts small too
	count := func(lo int) int {
		n := randCount(rng, lo)
		if small && n > 4 {
			n = lo + n%4
		}
		return n
	}
	// header decorations
	s.Tracing = maybe(rng)
	if v >= primitive.ProtocolVersion4 && maybe(rng) {
		s.Payload = map[string][]byte{}
		if rng.Intn(2) == 0 {
			s.Payload["graph-source"] = []byte("g")
		}
		for i, n := 0, rng.Intn(3); i < n || len(s.Payload) == 0; i++ {
			var val []byte
			switch rng.Intn(4) {
			case 0:
				val = nil // null [bytes]
			case 1:
				val = []byte{}
			default:
				val = Fill(rng, 1+rng.Intn(24), s.Content, false)
			}
			s.Payload[fmt.Sprintf("k%d-%x", i, rng.Intn(1<<16))] = val
		}
	}
	serial := func() *primitive.ConsistencyLevel {
		c := primitive.ConsistencyLevelSerial
		if rng.Intn(2) == 0 {
			c = primitive.ConsistencyLevelLocalSerial
		}
		return &c
	}
	timestamp := func() *int64 {
		t := int64(1600000000000000) + rng.Int63n(1<<40)
		if rng.Intn(8) == 0 {
			t = -t
		}
		return &t
	}
	nowSec := func() *int32 { n := int32(rng.Int31()); return &n }

	switch op {
	case primitive.OpCodeQuery, primitive.OpCodeExecute:
		switch rng.Intn(4) {
		case 0:
		case 1:
			s.ValueMode = ValuesNamed
			s.Values = randValueKinds(rng, v, count(0))
		default:
			s.ValueMode = ValuesPositional
			s.Values = randValueKinds(rng, v, count(0))
		}
		s.SkipMetadata = maybe(rng)
		if maybe(rng) {
			s.PageSize = 1 + rng.Int31n(100000)
			s.PageSizeInBytes = v.IsDse() && rng.Intn(2) == 0
		}
		if maybe(rng) {
			s.PagingState = true
			s.PagingStateLen = [...]int{0, 1, 16, 57, 300}[rng.Intn(5)]
		}
		if maybe(rng) {
			s.SerialConsistency = serial()
		}
		if maybe(rng) {
			s.DefaultTimestamp = timestamp()
		}
		if supportsKeyspace(v) && maybe(rng) {
			s.Keyspace = "ks1"
		}
		if v.SupportsQueryFlag(primitive.QueryFlagNowInSeconds) && maybe(rng) {
			s.NowInSeconds = nowSec()
		}
		if v.IsDse() && maybe(rng) {
			s.ContinuousPaging = &message.ContinuousPagingOptions{MaxPages: rng.Int31n(1000), PagesPerSecond: rng.Int31n(100)}
			if v >= primitive.ProtocolVersionDse2 {
				s.ContinuousPaging.NextPages = rng.Int31n(16)
			}
		}
		// where the filler goes
		places := []string{}
		if op == primitive.OpCodeQuery {
			places = append(places, "query")
		}
		if s.ValueMode != ValuesNone && len(s.Values) > 0 {
			places = append(places, "value")
		}
		if s.PagingState {
			places = append(places, "paging")
		}
		if len(places) == 0 { // an EXECUTE without values or paging state: give it one value
			s.ValueMode, s.Values = ValuesPositional, []ValueKind{ValLarge}
			places = []string{"value"}
		}
		s.BulkIn = places[rng.Intn(len(places))]
	case primitive.OpCodeBatch:
		s.BatchType = primitive.BatchType(rng.Intn(3))
		n := count(1)
		if !small && rng.Intn(200) == 0 {
			n = 256 + rng.Intn(100) // more children than fit a byte
		}
		s.Children = make([]ChildSpec, n)
		nv := func() int {
			if n > 8 {
				return rng.Intn(3)
			}
			if rng.Intn(3) == 0 {
				return 0
			}
			return count(0) % 17
		}
		for i := range s.Children {
			s.Children[i] = ChildSpec{Prepared: rng.Intn(2) == 0, Values: randValueKinds(rng, v, nv())}
		}
		if !small && rng.Intn(40) == 0 { // one child with the maximum of the value space
			s.Children[rng.Intn(n)].Values = randValueKinds(rng, v, 64)
		}
		if maybe(rng) {
			s.SerialConsistency = serial()
		}
		if maybe(rng) {
			s.DefaultTimestamp = timestamp()
		}
		if supportsKeyspace(v) && maybe(rng) {
			s.Keyspace = "ks1"
		}
		if v.SupportsQueryFlag(primitive.QueryFlagNowInSeconds) && maybe(rng) {
			s.NowInSeconds = nowSec()
		}
		if rng.Intn(2) == 0 {
			s.BulkIn = "value"
		}
	case primitive.OpCodePrepare:
		if supportsKeyspace(v) && rng.Intn(2) == 0 {
			s.Keyspace = "ks1"
		}
	default:
		panic(fmt.Sprintf("gen: unsupported request opcode %v", op))
	}
	return s
}

// ---------------------------------------------------------------------------------------------------------------------
// building

// Desc are the cell coordinates of a built request (for coverage tables) plus its byte layout.
type Desc struct {
	Version    string // v3 v4 v5 dsev1 dsev2
	OpCode     string // query execute batch prepare
	Flags      string // option set, sorted, "+"-joined ("-" if empty): values names skipmeta pagesize pagebytes paging serial timestamp keyspace nowinsec contpaging
	Header     string // header decorations: "-", tracing, payload, graph (joined with "+")
	SizeClass  string // class of the filler size (see SizeClassOf; "0" for no filler)
	Content    string
	NValues    int    // values of the QUERY/EXECUTE, or of all BATCH children together
	ValueKinds string // set of value kinds present
	NChildren  int
	ChildKinds string // "-", string, prepared, mixed
	Select     bool
	Layout     Layout
}

// Key is the coverage cell of the request.
func (d Desc) Key() string {
	return d.Version + "/" + d.OpCode + "/" + d.Flags + "/" + d.Header + "/" + d.SizeClass + "/" + d.Content
}

// NonTrivial says whether the request has values, children or optional fields.
func (d Desc) NonTrivial() bool {
	return d.NValues > 0 || d.NChildren > 0 || d.Flags != "-" || d.Header != "-"
}

type builder struct {
	s     ReqSpec
	rng   *rand.Rand
	kinds map[ValueKind]bool
	nvals int
	large int // number of ValLarge values that share the filler
}

func (b *builder) value(k ValueKind) *primitive.Value {
	b.kinds[k] = true
	b.nvals++
	switch k {
	case ValNull:
		return primitive.NewNullValue()
	case ValUnset:
		return primitive.NewUnsetValue()
	case ValEmpty:
		return primitive.NewValue([]byte{})
	case ValLarge:
		n := 32 + b.rng.Intn(65)
		if b.s.BulkIn == "value" && b.large > 0 {
			n = b.s.Bulk / b.large
		}
		return primitive.NewValue(Fill(b.rng, n, b.s.Content, false))
	}
	return primitive.NewValue(Fill(b.rng, 1+b.rng.Intn(16), b.s.Content, false))
}

func (b *builder) values(kinds []ValueKind, tokenFirst bool) []*primitive.Value {
	out := make([]*primitive.Value, 0, len(kinds)+1)
	for i, k := range kinds {
		if i == 0 && tokenFirst {
			b.kinds[ValRegular] = true
			b.nvals++
			out = append(out, primitive.NewValue([]byte(b.s.Token)))
			continue
		}
		out = append(out, b.value(k))
	}
	if tokenFirst && len(kinds) == 0 {
		b.kinds[ValRegular] = true
		b.nvals++
		out = append(out, primitive.NewValue([]byte(b.s.Token)))
	}
	return out
}

func countLarge(kinds []ValueKind, skipFirst bool) int {
	n := 0
	for i, k := range kinds {
		if k == ValLarge && !(i == 0 && skipFirst) {
			n++
		}
	}
	return n
}

// Statement returns a forwardable CQL statement on ks1.t: never system.*, never USE.  markers are the bind markers to
// place ("?" or ":name"), filler goes into a string literal, key into the partition-key literal.
func Statement(sel, update bool, key, filler string, markers []string) string {
	if key == "" {
		key = "k0"
	}
	var sb strings.Builder
	switch {
	case sel:
		sb.WriteString("SELECT k, v FROM ks1.t WHERE k = '" + key + "'")
		if filler != "" {
			sb.WriteString(" AND v = '" + filler + "'")
		}
		for i, m := range markers {
			fmt.Fprintf(&sb, " AND c%d = %s", i, m)
		}
	case update:
		sb.WriteString("UPDATE ks1.t SET v = '" + filler + "'")
		for i, m := range markers {
			fmt.Fprintf(&sb, ", c%d = %s", i, m)
		}
		sb.WriteString(" WHERE k = '" + key + "'")
	default:
		sb.WriteString("INSERT INTO ks1.t (k, v")
		for i := range markers {
			fmt.Fprintf(&sb, ", c%d", i)
		}
		sb.WriteString(") VALUES ('" + key + "', '" + filler + "'")
		for _, m := range markers {
			sb.WriteString(", " + m)
		}
		sb.WriteString(")")
	}
	return sb.String()
}

func markers(n int, named bool) []string {
	out := make([]string, n)
	for i := range out {
		if named {
			out[i] = fmt.Sprintf(":n%d", i)
		} else {
			out[i] = "?"
		}
	}
	return out
}

// Build turns a spec into the reference frame and its description.
func Build(s ReqSpec) (*frame.Frame, Desc) {
	b := &builder{s: s, rng: rand.New(rand.NewSource(s.Seed)), kinds: map[ValueKind]bool{}}
	flags := []string{}
	var msg message.Message
	nchildren, childKinds := 0, "-"
	queryFiller := func() string {
		if s.BulkIn == "query" && s.Bulk > 0 {
			return string(Fill(b.rng, s.Bulk, s.Content, true))
		}
		return ""
	}
	options := func(tokenFirst bool) *message.QueryOptions {
		o := &message.QueryOptions{Consistency: s.Consistency, SkipMetadata: s.SkipMetadata, PageSize: s.PageSize,
			PageSizeInBytes: s.PageSizeInBytes, SerialConsistency: s.SerialConsistency, DefaultTimestamp: s.DefaultTimestamp,
			Keyspace: s.Keyspace, NowInSeconds: s.NowInSeconds, ContinuousPagingOptions: s.ContinuousPaging}
		mode := s.ValueMode
		if tokenFirst && mode == ValuesNone {
			mode = ValuesPositional
		}
		b.large = countLarge(s.Values, tokenFirst)
		if s.BulkIn == "value" && b.large == 0 && s.Bulk > 0 { // nobody to carry the filler: append a large value
			s.Values = append(append([]ValueKind{}, s.Values...), ValLarge)
			b.large = 1
			if mode == ValuesNone {
				mode = ValuesPositional
			}
		}
		switch mode {
		case ValuesPositional:
			o.PositionalValues = b.values(s.Values, tokenFirst)
			flags = append(flags, "values")
		case ValuesNamed:
			vals := b.values(s.Values, tokenFirst)
			o.NamedValues = make(map[string]*primitive.Value, len(vals))
			for i, v := range vals {
				o.NamedValues[fmt.Sprintf("n%d", i)] = v
			}
			flags = append(flags, "values", "names")
		}
		if s.SkipMetadata {
			flags = append(flags, "skipmeta")
		}
		if s.PageSize > 0 {
			flags = append(flags, "pagesize")
			if s.PageSizeInBytes {
				flags = append(flags, "pagebytes")
			}
		}
		if s.PagingState {
			n := s.PagingStateLen
			if s.BulkIn == "paging" {
				n = s.Bulk
			}
			o.PagingState = Fill(b.rng, n, s.Content, false)
			flags = append(flags, "paging")
		}
		if s.SerialConsistency != nil {
			flags = append(flags, "serial")
		}
		if s.DefaultTimestamp != nil {
			flags = append(flags, "timestamp")
		}
		if s.Keyspace != "" {
			flags = append(flags, "keyspace")
		}
		if s.NowInSeconds != nil {
			flags = append(flags, "nowinsec")
		}
		if s.ContinuousPaging != nil {
			flags = append(flags, "contpaging")
		}
		return o
	}
	id := func(given []byte) []byte {
		gen := randID(b.rng) // always drawn, so that giving an id does not shift the rest of the content
		if given != nil {
			return given
		}
		return gen
	}

	switch s.OpCode {
	case primitive.OpCodeQuery:
		o := options(false)
		msg = &message.Query{Query: Statement(s.Select, s.Update, s.Token, queryFiller(),
			markers(len(o.PositionalValues)+len(o.NamedValues), o.NamedValues != nil)), Options: o}
	case primitive.OpCodeExecute:
		ex := &message.Execute{QueryId: id(s.QueryId)}
		rm := id(s.ResultMetadataId)
		if s.Version.SupportsResultMetadataId() {
			ex.ResultMetadataId = rm
		}
		ex.Options = options(s.Token != "")
		msg = ex
	case primitive.OpCodePrepare:
		nm := b.rng.Intn(4)
		msg = &message.Prepare{Query: Statement(s.Select, s.Update, s.Token, queryFiller(), markers(nm, false)), Keyspace: s.Keyspace}
		if s.Keyspace != "" {
			flags = append(flags, "keyspace")
		}
	case primitive.OpCodeBatch:
		bt := &message.Batch{Type: s.BatchType, Consistency: s.Consistency, SerialConsistency: s.SerialConsistency,
			DefaultTimestamp: s.DefaultTimestamp, Keyspace: s.Keyspace, NowInSeconds: s.NowInSeconds}
		children := s.Children
		// the filler goes to one child: its string literal ("query": first string child) or its large values ("value")
		carrier := -1
		if s.Bulk > 0 {
			for i, c := range children {
				if s.BulkIn == "query" && !c.Prepared {
					carrier = i
					break
				}
				if s.BulkIn == "value" && countLarge(c.Values, i == 0 && s.Token != "" && c.Prepared) > 0 {
					carrier = i
					break
				}
			}
			if carrier < 0 && len(children) > 0 { // nobody fits: make the last child fit
				carrier = len(children) - 1
				children = append([]ChildSpec{}, children...)
				c := children[carrier]
				if s.BulkIn == "query" {
					c.Prepared = false
				} else {
					c.Values = append(append([]ValueKind{}, c.Values...), ValLarge)
				}
				children[carrier] = c
			}
		}
		ns, np := 0, 0
		for i, c := range children {
			ch := &message.BatchChild{}
			tokHere := i == 0 && s.Token != ""
			b.large = 0
			if i == carrier && s.BulkIn == "value" {
				b.large = countLarge(c.Values, tokHere && c.Prepared)
			}
			if c.Prepared {
				np++
				ch.Id = id(c.Id)
				ch.Values = b.values(c.Values, tokHere)
			} else {
				ns++
				_ = id(nil)
				ch.Values = b.values(c.Values, false)
				key, fill := fmt.Sprintf("k%d", i), ""
				if tokHere {
					key = s.Token
				}
				if i == carrier && s.BulkIn == "query" {
					fill = string(Fill(b.rng, s.Bulk, s.Content, true))
				}
				ch.Query = Statement(false, (i+int(s.Seed&1))%2 == 0, key, fill, markers(len(ch.Values), false))
			}
			bt.Children = append(bt.Children, ch)
		}
		nchildren = len(children)
		switch {
		case ns > 0 && np > 0:
			childKinds = "mixed"
		case ns > 0:
			childKinds = "string"
		case np > 0:
			childKinds = "prepared"
		}
		if s.SerialConsistency != nil {
			flags = append(flags, "serial")
		}
		if s.DefaultTimestamp != nil {
			flags = append(flags, "timestamp")
		}
		if s.Keyspace != "" {
			flags = append(flags, "keyspace")
		}
		if s.NowInSeconds != nil {
			flags = append(flags, "nowinsec")
		}
		msg = bt
	default:
		panic(fmt.Sprintf("gen: unsupported request opcode %v", s.OpCode))
	}

	f := frame.NewFrame(s.Version, s.Stream, msg)
	hdr := []string{}
	if s.Tracing {
		f.RequestTracingId(true)
		hdr = append(hdr, "tracing")
	}
	if len(s.Payload) > 0 {
		f.SetCustomPayload(s.Payload)
		if _, ok := s.Payload["graph-source"]; ok {
			hdr = append(hdr, "graph")
		}
		if _, ok := s.Payload["graph-source"]; !ok || len(s.Payload) > 1 {
			hdr = append(hdr, "payload")
		}
	}
	join := func(a []string) string {
		if len(a) == 0 {
			return "-"
		}
		sort.Strings(a)
		return strings.Join(a, "+")
	}
	ks := []string{}
	for k := range b.kinds {
		ks = append(ks, k.String())
	}
	size := "0"
	if s.Bulk > 0 {
		size = SizeClassOf(s.Bulk)
	}
	d := Desc{Version: VersionName(s.Version), OpCode: OpName(s.OpCode), Flags: join(flags), Header: join(hdr), SizeClass: size,
		Content: s.Content.String(), NValues: b.nvals, ValueKinds: join(ks), NChildren: nchildren, ChildKinds: childKinds,
		Select: s.Select && (s.OpCode == primitive.OpCodeQuery || s.OpCode == primitive.OpCodePrepare), Layout: LayoutOf(f)}
	return f, d
}

// RandomRequest draws and builds one request (see RandomSpec and Build).
func RandomRequest(rng *rand.Rand, v primitive.ProtocolVersion, op primitive.OpCode, maxBody int, token string) (*frame.Frame, Desc) {
	return Build(RandomSpec(rng, v, op, maxBody, token))
}

// ---------------------------------------------------------------------------------------------------------------------
// encoding with the reference codec

var refCodec = frame.NewRawCodec()

// EncodeBody returns the UNCOMPRESSED body bytes of f (custom payload, if any, then the message) via the reference codec.
// The frame is not modified.
func EncodeBody(f *frame.Frame) ([]byte, error) {
	h := *f.Header
	h.Flags = h.Flags.Remove(primitive.HeaderFlagCompressed)
	var buf bytes.Buffer
	if err := refCodec.EncodeBody(&h, f.Body, &buf); err != nil {
		return nil, err
	}
	return buf.Bytes(), nil
}

// EncodeRaw returns f as a raw frame with an uncompressed body and a correct BodyLength (a copy of the header).
func EncodeRaw(f *frame.Frame) (*frame.RawFrame, error) {
	body, err := EncodeBody(f)
	if err != nil {
		return nil, err
	}
	h := *f.Header
	h.Flags = h.Flags.Remove(primitive.HeaderFlagCompressed)
	h.BodyLength = int32(len(body))
	return &frame.RawFrame{Header: &h, Body: body}, nil
}

// ---------------------------------------------------------------------------------------------------------------------
// byte layout of the leading fields (what a QUERY/EXECUTE/BATCH body starts with), by arithmetic on the message

type FieldKind int

const (
	FQueryLen      FieldKind = iota // [int]   length of the QUERY string
	FIdLen                          // [short] length of the EXECUTE prepared id
	FRmidLen                        // [short] length of the EXECUTE result-metadata id
	FConsistency                    // [short]
	FBatchType                      // [byte]
	FChildCount                     // [short]
	FChildType                      // [byte]
	FChildQueryLen                  // [int]
	FChildIdLen                     // [short]
	FValueCount                     // [short] number of values of a BATCH child
	FValueLen                       // [int]   length of a value of a BATCH child
)

func (k FieldKind) String() string {
	return [...]string{"query-len", "id-len", "rmid-len", "consistency", "batch-type", "child-count", "child-type", "child-query-len",
		"child-id-len", "value-count", "value-len"}[k]
}

// Field is one length/count/tag field of the leading part of a body.
type Field struct {
	Kind  FieldKind
	Off   int   // offset in the uncompressed body
	Size  int   // 1, 2 or 4 bytes
	Val   int64 // its value in the well-formed body
	Child int   // BATCH child index (or -1)
	Index int   // value index inside the child (or -1)
}

// Layout locates the leading fields of a QUERY/EXECUTE/BATCH body.  LeadEnd is the offset just after the consistency
// level: a correct partial decoder needs exactly the bytes [0, LeadEnd) and treats the rest as opaque.
type Layout struct {
	PayloadLen int // bytes of the custom payload in front of the message (0 without the flag)
	LeadEnd    int
	Fields     []Field
}

func valueWireLen(v *primitive.Value) int {
	switch {
	case v.Type == primitive.ValueTypeNull, v.Type == primitive.ValueTypeRegular && v.Contents == nil:
		return -1
	case v.Type == primitive.ValueTypeUnset:
		return -2
	}
	return len(v.Contents)
}

// LayoutOf computes the layout of a request frame from its message (no encoding involved).  For PREPARE only
// PayloadLen is meaningful.
func LayoutOf(f *frame.Frame) Layout {
	var l Layout
	if f.Header.Flags.Contains(primitive.HeaderFlagCustomPayload) {
		l.PayloadLen = 2
		for k, v := range f.Body.CustomPayload {
			l.PayloadLen += 2 + len(k) + 4 + len(v)
		}
	}
	off := l.PayloadLen
	add := func(k FieldKind, size int, val int64, child, idx int) {
		l.Fields = append(l.Fields, Field{Kind: k, Off: off, Size: size, Val: val, Child: child, Index: idx})
		off += size
	}
	v := f.Header.Version
	switch m := f.Body.Message.(type) {
	case *message.Query:
		add(FQueryLen, 4, int64(len(m.Query)), -1, -1)
		off += len(m.Query)
		add(FConsistency, 2, int64(m.Options.Consistency), -1, -1)
	case *message.Execute:
		add(FIdLen, 2, int64(len(m.QueryId)), -1, -1)
		off += len(m.QueryId)
		if v.SupportsResultMetadataId() {
			add(FRmidLen, 2, int64(len(m.ResultMetadataId)), -1, -1)
			off += len(m.ResultMetadataId)
		}
		add(FConsistency, 2, int64(m.Options.Consistency), -1, -1)
	case *message.Batch:
		add(FBatchType, 1, int64(m.Type), -1, -1)
		add(FChildCount, 2, int64(len(m.Children)), -1, -1)
		for i, c := range m.Children {
			if c.Query != "" {
				add(FChildType, 1, 0, i, -1)
				add(FChildQueryLen, 4, int64(len(c.Query)), i, -1)
				off += len(c.Query)
			} else {
				add(FChildType, 1, 1, i, -1)
				add(FChildIdLen, 2, int64(len(c.Id)), i, -1)
				off += len(c.Id)
			}
			add(FValueCount, 2, int64(len(c.Values)), i, -1)
			for j, val := range c.Values {
				n := valueWireLen(val)
				add(FValueLen, 4, int64(n), i, j)
				if n > 0 {
					off += n
				}
			}
		}
		add(FConsistency, 2, int64(m.Consistency), -1, -1)
	}
	l.LeadEnd = off
	return l
}

// ---------------------------------------------------------------------------------------------------------------------
// responses

// ResponseKinds lists the response kinds Response can build for v: every RESULT kind and every ERROR code the version has.
func ResponseKinds(v primitive.ProtocolVersion) []string {
	k := []string{"result/void", "result/rows", "result/rows-nometa", "result/set-keyspace", "result/prepared", "result/schema-change",
		"error/server", "error/protocol", "error/auth", "error/unavailable", "error/overloaded", "error/bootstrapping", "error/truncate",
		"error/write-timeout", "error/read-timeout", "error/syntax", "error/unauthorized", "error/invalid", "error/config",
		"error/already-exists", "error/unprepared"}
	if v >= primitive.ProtocolVersion4 {
		k = append(k, "error/read-failure", "error/function-failure", "error/write-failure")
	}
	return k
}

// ReferenceRejectedKinds are well-formed responses a real server sends but the reference DECODER refuses
// (primitive.WriteType.IsValid omits CAS, and only the WRITE_FAILURE decoder checks it).  Response builds them; they are
// kept out of ResponseKinds so that a caller opts in knowingly.
var ReferenceRejectedKinds = []string{"error/write-failure-cas"}

func randName(rng *rand.Rand, prefix string) string {
	return fmt.Sprintf("%s%d", prefix, rng.Intn(1000))
}

func columnTypes(rng *rand.Rand, v primitive.ProtocolVersion) []datatype.DataType {
	udt, _ := datatype.NewUserDefined("ks1", "addr", []string{"street", "zip"}, []datatype.DataType{datatype.Varchar, datatype.Int})
	all := []datatype.DataType{datatype.Varchar, datatype.Int, datatype.Bigint, datatype.Blob, datatype.Boolean, datatype.Uuid,
		datatype.Timestamp, datatype.Double, datatype.Inet, datatype.Ascii, datatype.Decimal, datatype.Varint, datatype.Timeuuid,
		datatype.Float, datatype.Counter, datatype.NewList(datatype.Int), datatype.NewSet(datatype.Varchar),
		datatype.NewMap(datatype.Varchar, datatype.NewList(datatype.Bigint)), datatype.NewTuple(datatype.Int, datatype.Varchar), udt,
		datatype.NewCustom("org.apache.cassandra.db.marshal.DynamicCompositeType")}
	if v >= primitive.ProtocolVersion4 {
		all = append(all, datatype.Date, datatype.Time, datatype.Smallint, datatype.Tinyint)
	}
	if v >= primitive.ProtocolVersion5 {
		all = append(all, datatype.Duration)
	}
	n := 1 + rng.Intn(8)
	out := make([]datatype.DataType, n)
	for i := range out {
		out[i] = all[rng.Intn(len(all))]
	}
	return out
}

func columns(rng *rand.Rand, v primitive.ProtocolVersion) []*message.ColumnMetadata {
	types := columnTypes(rng, v)
	sameTable := rng.Intn(3) > 0
	cols := make([]*message.ColumnMetadata, len(types))
	for i, t := range types {
		c := &message.ColumnMetadata{Keyspace: "ks1", Table: "t", Name: fmt.Sprintf("c%d", i), Type: t}
		if !sameTable && i%2 == 1 {
			c.Table = "t2"
		}
		cols[i] = c
	}
	return cols
}

func rowData(rng *rand.Rand, ncols, nrows int) message.RowSet {
	class := Content(rng.Intn(3))
	template := make(message.Row, ncols)
	for j := range template {
		template[j] = Fill(rng, 1+rng.Intn(24), class, false)
	}
	rows := make(message.RowSet, nrows)
	for i := range rows {
		row := make(message.Row, ncols)
		for j := range row {
			switch x := rng.Intn(12); {
			case x == 0:
				row[j] = nil // null cell
			case x == 1:
				row[j] = []byte{}
			case class == ContentCompressible:
				row[j] = template[j] // repeated rows
			default:
				row[j] = Fill(rng, 1+rng.Intn(24), class, false)
			}
		}
		rows[i] = row
	}
	return rows
}

func rowsMetadata(rng *rand.Rand, v primitive.ProtocolVersion, cols []*message.ColumnMetadata, noMeta bool) *message.RowsMetadata {
	m := &message.RowsMetadata{ColumnCount: int32(len(cols))}
	if !noMeta {
		m.Columns = cols
	}
	if rng.Intn(3) == 0 {
		m.PagingState = Fill(rng, 1+rng.Intn(40), ContentRandom, false)
	}
	if v.SupportsResultMetadataId() && rng.Intn(3) == 0 {
		m.NewResultMetadataId = Fill(rng, 16, ContentRandom, false)
	}
	if v.IsDse() && rng.Intn(3) == 0 {
		m.ContinuousPageNumber = 1 + rng.Int31n(100)
		m.LastContinuousPage = rng.Intn(2) == 0
	}
	return m
}

func reasons(rng *rand.Rand) []*primitive.FailureReason {
	n := 1 + rng.Intn(3)
	out := make([]*primitive.FailureReason, n)
	for i := range out {
		ip := net.IPv4(10, 0, byte(rng.Intn(256)), byte(1+i)).To4()
		if rng.Intn(4) == 0 {
			ip = net.ParseIP(fmt.Sprintf("fe80::%x", 1+rng.Intn(0xffff)))
		}
		out[i] = &primitive.FailureReason{Endpoint: ip, Code: primitive.FailureCode(rng.Intn(7))}
	}
	return out
}

var writeTypes = []primitive.WriteType{primitive.WriteTypeSimple, primitive.WriteTypeBatch, primitive.WriteTypeUnloggedBatch,
	primitive.WriteTypeCounter, primitive.WriteTypeBatchLog, primitive.WriteTypeCas, primitive.WriteTypeView, primitive.WriteTypeCdc}

// Response builds one response message of the given kind (see ResponseKinds) with every field of the kind filled.
func Response(rng *rand.Rand, v primitive.ProtocolVersion, kind string) message.Message {
	text := "error " + string(Fill(rng, rng.Intn(60), ContentText, true))
	cl := Consistencies[rng.Intn(len(Consistencies))]
	switch kind {
	case "result/void":
		return &message.VoidResult{}
	case "result/rows", "result/rows-nometa":
		cols := columns(rng, v)
		nrows := [...]int{0, 1, 3, 40, 500}[rng.Intn(5)]
		return &message.RowsResult{Metadata: rowsMetadata(rng, v, cols, kind == "result/rows-nometa"), Data: rowData(rng, len(cols), nrows)}
	case "result/set-keyspace":
		return &message.SetKeyspaceResult{Keyspace: randName(rng, "ks")}
	case "result/prepared":
		p := &message.PreparedResult{PreparedQueryId: Fill(rng, 16, ContentRandom, false), VariablesMetadata: &message.VariablesMetadata{},
			ResultMetadata: &message.RowsMetadata{}}
		if v.SupportsResultMetadataId() {
			p.ResultMetadataId = Fill(rng, 16, ContentRandom, false)
		}
		if rng.Intn(4) > 0 {
			p.VariablesMetadata.Columns = columns(rng, v)
			if v >= primitive.ProtocolVersion4 && rng.Intn(2) == 0 {
				p.VariablesMetadata.PkIndices = []uint16{0}
			}
		}
		if rng.Intn(2) == 0 { // a SELECT: result columns
			cols := columns(rng, v)
			p.ResultMetadata = &message.RowsMetadata{ColumnCount: int32(len(cols)), Columns: cols}
		}
		return p
	case "result/schema-change":
		targets := []primitive.SchemaChangeTarget{primitive.SchemaChangeTargetKeyspace, primitive.SchemaChangeTargetTable, primitive.SchemaChangeTargetType}
		if v >= primitive.ProtocolVersion4 {
			targets = append(targets, primitive.SchemaChangeTargetFunction, primitive.SchemaChangeTargetAggregate)
		}
		sc := &message.SchemaChangeResult{Keyspace: randName(rng, "ks"), Target: targets[rng.Intn(len(targets))],
			ChangeType: []primitive.SchemaChangeType{primitive.SchemaChangeTypeCreated, primitive.SchemaChangeTypeUpdated, primitive.SchemaChangeTypeDropped}[rng.Intn(3)]}
		switch sc.Target {
		case primitive.SchemaChangeTargetKeyspace:
		case primitive.SchemaChangeTargetFunction, primitive.SchemaChangeTargetAggregate:
			sc.Object = randName(rng, "fn")
			sc.Arguments = []string{"int", "text"}[:rng.Intn(3)]
			if len(sc.Arguments) == 0 {
				sc.Arguments = nil
			}
		default:
			sc.Object = randName(rng, "obj")
		}
		return sc
	case "error/server":
		return &message.ServerError{ErrorMessage: text}
	case "error/protocol":
		return &message.ProtocolError{ErrorMessage: text}
	case "error/auth":
		return &message.AuthenticationError{ErrorMessage: text}
	case "error/unavailable":
		return &message.Unavailable{ErrorMessage: text, Consistency: cl, Required: 1 + rng.Int31n(5), Alive: rng.Int31n(5)}
	case "error/overloaded":
		return &message.Overloaded{ErrorMessage: text}
	case "error/bootstrapping":
		return &message.IsBootstrapping{ErrorMessage: text}
	case "error/truncate":
		return &message.TruncateError{ErrorMessage: text}
	case "error/write-timeout":
		wt := &message.WriteTimeout{ErrorMessage: text, Consistency: cl, Received: rng.Int31n(5), BlockFor: 1 + rng.Int31n(5),
			WriteType: writeTypes[rng.Intn(len(writeTypes))]}
		if v.SupportsWriteTimeoutContentions() && wt.WriteType == primitive.WriteTypeCas {
			wt.Contentions = uint16(rng.Intn(100))
		}
		return wt
	case "error/read-timeout":
		return &message.ReadTimeout{ErrorMessage: text, Consistency: cl, Received: rng.Int31n(5), BlockFor: 1 + rng.Int31n(5), DataPresent: rng.Intn(2) == 0}
	case "error/read-failure":
		rf := &message.ReadFailure{ErrorMessage: text, Consistency: cl, Received: rng.Int31n(5), BlockFor: 1 + rng.Int31n(5), DataPresent: rng.Intn(2) == 0}
		if v.SupportsReadWriteFailureReasonMap() {
			rf.FailureReasons = reasons(rng)
		} else {
			rf.NumFailures = 1 + rng.Int31n(3)
		}
		return rf
	case "error/write-failure", "error/write-failure-cas":
		wf := &message.WriteFailure{ErrorMessage: text, Consistency: cl, Received: rng.Int31n(5), BlockFor: 1 + rng.Int31n(5),
			WriteType: primitive.WriteTypeCas}
		for kind == "error/write-failure" && wf.WriteType == primitive.WriteTypeCas {
			wf.WriteType = writeTypes[rng.Intn(len(writeTypes))]
		}
		if v.SupportsReadWriteFailureReasonMap() {
			wf.FailureReasons = reasons(rng)
		} else {
			wf.NumFailures = 1 + rng.Int31n(3)
		}
		return wf
	case "error/function-failure":
		return &message.FunctionFailure{ErrorMessage: text, Keyspace: "ks1", Function: randName(rng, "fn"), Arguments: []string{"int", "text"}}
	case "error/syntax":
		return &message.SyntaxError{ErrorMessage: text}
	case "error/unauthorized":
		return &message.Unauthorized{ErrorMessage: text}
	case "error/invalid":
		return &message.Invalid{ErrorMessage: text}
	case "error/config":
		return &message.ConfigError{ErrorMessage: text}
	case "error/already-exists":
		return &message.AlreadyExists{ErrorMessage: text, Keyspace: "ks1", Table: randName(rng, "t")}
	case "error/unprepared":
		return &message.Unprepared{ErrorMessage: text, Id: Fill(rng, 16, ContentRandom, false)}
	}
	panic("gen: unknown response kind " + kind)
}

// RandomResponse draws a response kind uniformly (see ResponseKinds) and builds it.
func RandomResponse(rng *rand.Rand, v primitive.ProtocolVersion) message.Message {
	kinds := ResponseKinds(v)
	return Response(rng, v, kinds[rng.Intn(len(kinds))])
}
