package gen

import (
	"bytes"
	"math/rand"
	"reflect"
	"testing"

	"github.com/datastax/go-cassandra-native-protocol/frame"
	"github.com/datastax/go-cassandra-native-protocol/message"
	"github.com/datastax/go-cassandra-native-protocol/primitive"
)

// Every generated request must be accepted by the reference codec, decode to the same message, contain its token, and
// have a layout that agrees with the bytes.
func TestRequestsRoundTrip(t *testing.T) {
	rng := rand.New(rand.NewSource(1))
	cells := map[string]int{}
	for i := 0; i < 6000; i++ {
		v := Versions[rng.Intn(len(Versions))]
		op := RequestOpCodes[rng.Intn(len(RequestOpCodes))]
		max := []int{0, 100, 5000, 300000}[rng.Intn(4)]
		tok := ""
		if rng.Intn(2) == 0 {
			tok = "T0123456789abcdef"
		}
		spec := RandomSpec(rng, v, op, max, tok)
		f, d := Build(spec)
		f2, d2 := Build(spec)
		cells[d.Key()]++
		body, err := EncodeBody(f)
		if err != nil {
			t.Fatalf("%v %v: encode: %v (%+v)", v, op, err, spec)
		}
		if !reflect.DeepEqual(d, d2) || !reflect.DeepEqual(f.Body.Message, f2.Body.Message) {
			t.Fatalf("Build is not deterministic for %+v", spec)
		}
		if fixed := 3500 + 200*d.NChildren; len(body) > max+fixed || (max < 4096 && len(body) > max+1024) {
			d.Layout = Layout{}
			t.Fatalf("%v %v: body %d > max %d (+%d): %+v", v, op, len(body), max, fixed, d)
		}
		if tok != "" && !bytes.Contains(body, []byte(tok)) {
			t.Fatalf("%v %v: token lost: %+v", v, op, spec)
		}
		raw, _ := EncodeRaw(f)
		back, err := refCodec.ConvertFromRawFrame(raw)
		if err != nil {
			t.Fatalf("%v %v: reference decode: %v (%+v)", v, op, err, spec)
		}
		if !reflect.DeepEqual(back.Body.Message, f.Body.Message) {
			t.Fatalf("%v %v: decoded message differs:\n%#v\n%#v", v, op, back.Body.Message, f.Body.Message)
		}
		if op != primitive.OpCodePrepare {
			l := d.Layout
			if l.LeadEnd > len(body) {
				t.Fatalf("lead end %d > body %d", l.LeadEnd, len(body))
			}
			for _, fd := range l.Fields {
				var got int64
				switch fd.Size {
				case 1:
					got = int64(body[fd.Off])
				case 2:
					got = int64(body[fd.Off])<<8 | int64(body[fd.Off+1])
				case 4:
					got = int64(int32(uint32(body[fd.Off])<<24 | uint32(body[fd.Off+1])<<16 | uint32(body[fd.Off+2])<<8 | uint32(body[fd.Off+3])))
				}
				if got != fd.Val {
					t.Fatalf("%v %v: field %v at %d: bytes say %d, layout says %d", v, op, fd.Kind, fd.Off, got, fd.Val)
				}
			}
			// the rest of the body must be what the reference writes after the consistency level
			var cons primitive.ConsistencyLevel
			switch m := f.Body.Message.(type) {
			case *message.Query:
				cons = m.Options.Consistency
			case *message.Execute:
				cons = m.Options.Consistency
			case *message.Batch:
				cons = m.Consistency
			}
			if got := primitive.ConsistencyLevel(uint16(body[l.LeadEnd-2])<<8 | uint16(body[l.LeadEnd-1])); got != cons {
				t.Fatalf("consistency at lead end: %v != %v", got, cons)
			}
		}
	}
	t.Logf("%d distinct cells", len(cells))
}

func TestResponsesRoundTrip(t *testing.T) {
	rng := rand.New(rand.NewSource(2))
	codec := frame.NewRawCodec()
	for _, v := range Versions {
		for _, k := range ResponseKinds(v) {
			for i := 0; i < 50; i++ {
				msg := Response(rng, v, k)
				f := frame.NewFrame(v, 1, msg)
				raw, err := codec.ConvertToRawFrame(f)
				if err != nil {
					t.Fatalf("%v %s: encode: %v", v, k, err)
				}
				back, err := codec.ConvertFromRawFrame(raw)
				if err != nil {
					t.Fatalf("%v %s: decode: %v", v, k, err)
				}
				raw2, err := codec.ConvertToRawFrame(back)
				if err != nil || !bytes.Equal(raw.Body, raw2.Body) {
					t.Fatalf("%v %s: re-encode differs (%v)", v, k, err)
				}
			}
		}
		for i := 0; i < 200; i++ {
			_ = RandomResponse(rng, v)
		}
	}
}
