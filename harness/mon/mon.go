// Package mon holds what every check shares: the logical clock, the event log, violations with stable signatures,
// the known-findings matcher and the evidence writer.
package mon

import (
	"encoding/json"
	"fmt"
	"os"
	"path/filepath"
	"sort"
	"strings"
	"sync"
	"sync/atomic"
	"time"
)

var lseq int64

// Tick returns the next value of the single process-wide logical clock all logs share.
func Tick() int64 { return atomic.AddInt64(&lseq, 1) }

// Event is one record of a history (see DESIGN.md appendix B).
type Event struct {
	L       int64  `json:"l"`
	Src     string `json:"src"`          // client | backend | hook | harness
	K       string `json:"k"`            // send | recv | reply | kill | hook point ...
	Cl      int    `json:"cl,omitempty"` // client id
	Host    int    `json:"host,omitempty"`
	Conn    int    `json:"conn,omitempty"`
	Ver     int    `json:"ver,omitempty"`
	Fl      int    `json:"fl,omitempty"`
	St      int    `json:"st"`
	Op      int    `json:"op"`
	Tok     string `json:"tok,omitempty"`
	Arrival int    `json:"arrival,omitempty"`
	Ks      string `json:"ks,omitempty"`
	Comp    string `json:"comp,omitempty"`
	Outcome string `json:"outcome,omitempty"`
	Note    string `json:"note,omitempty"`
	Body    []byte `json:"-"`
	Ctl     bool   `json:"ctl,omitempty"` // backend connection that REGISTERed (control connection)
}

// Log is an append-only, thread-safe event log.
type Log struct {
	mu     sync.Mutex
	events []Event
	keep   bool // keep bodies
}

func NewLog(keepBodies bool) *Log { return &Log{keep: keepBodies} }

func (l *Log) Add(e Event) int64 {
	if l == nil {
		return 0
	}
	l.mu.Lock()
	e.L = Tick()
	if !l.keep {
		e.Body = nil
	}
	l.events = append(l.events, e)
	l.mu.Unlock()
	return e.L
}

func (l *Log) Len() int {
	l.mu.Lock()
	defer l.mu.Unlock()
	return len(l.events)
}

// Snapshot returns a copy of the events ordered by logical time.
func (l *Log) Snapshot() []Event {
	l.mu.Lock()
	out := make([]Event, len(l.events))
	copy(out, l.events)
	l.mu.Unlock()
	sort.SliceStable(out, func(i, j int) bool { return out[i].L < out[j].L })
	return out
}

func (l *Log) Reset() {
	l.mu.Lock()
	l.events = nil
	l.mu.Unlock()
}

// Violation is a refutation of a property with a stable signature (what failed, not where the run happened to be).
type Violation struct {
	Property  string      `json:"property"`
	Signature string      `json:"signature"`
	Detail    string      `json:"detail"`
	Scenario  interface{} `json:"scenario,omitempty"`
	Witness   interface{} `json:"witness,omitempty"`
}

// Result accumulates what one run (or one shard of it) observed.
type Result struct {
	Property     string                 `json:"property"`
	Evaluations  int                    `json:"evaluations"`
	Distinct     map[string]struct{}    `json:"-"`
	DistinctKeys []string               `json:"distinct_keys,omitempty"`
	Samples      []interface{}          `json:"samples"`
	Observed     map[string]int         `json:"observed"`
	Violations   []Violation            `json:"violations"`
	Inconclusive []string               `json:"inconclusive"`
	Assumptions  []string               `json:"assumptions"`
	Required     []string               `json:"required"` // observed keys that must be > 0 or the check is broken
	Extra        map[string]interface{} `json:"extra,omitempty"`
	Exhaustive   bool                   `json:"exhaustive,omitempty"`
	Broken       []string               `json:"broken,omitempty"` // the check itself is broken (harness bug): exit 2
	mu           sync.Mutex
}

func NewResult(prop string) *Result {
	return &Result{Property: prop, Distinct: map[string]struct{}{}, Observed: map[string]int{}, Extra: map[string]interface{}{}}
}

func (r *Result) Eval(n int) { r.mu.Lock(); r.Evaluations += n; r.mu.Unlock() }

// NonTrivial records a distinct non-trivial case key.
func (r *Result) NonTrivial(key string) {
	r.mu.Lock()
	r.Distinct[key] = struct{}{}
	r.mu.Unlock()
}

func (r *Result) Obs(key string, n int) { r.mu.Lock(); r.Observed[key] += n; r.mu.Unlock() }

func (r *Result) ObsMax(key string, n int) {
	r.mu.Lock()
	if r.Observed[key] < n {
		r.Observed[key] = n
	}
	r.mu.Unlock()
}

func (r *Result) Sample(s interface{}) {
	r.mu.Lock()
	if len(r.Samples) < 8 {
		r.Samples = append(r.Samples, s)
	}
	r.mu.Unlock()
}

func (r *Result) Violate(v Violation) {
	if v.Property == "" {
		v.Property = r.Property
	}
	r.mu.Lock()
	// keep at most 3 witnesses per signature
	n := 0
	for _, o := range r.Violations {
		if o.Signature == v.Signature {
			n++
		}
	}
	if n < 3 {
		r.Violations = append(r.Violations, v)
	}
	r.Observed["violation:"+v.Signature]++
	r.mu.Unlock()
}

// ViolationCount returns the number of violation occurrences recorded so far (runners use it to cut a run short once
// a broken tree has been shown to be broken many times over).
func (r *Result) ViolationCount() int {
	r.mu.Lock()
	defer r.mu.Unlock()
	n := 0
	for k, v := range r.Observed {
		if strings.HasPrefix(k, "violation:") {
			n += v
		}
	}
	return n
}

func (r *Result) Inconc(why string) {
	r.mu.Lock()
	if len(r.Inconclusive) < 50 {
		r.Inconclusive = append(r.Inconclusive, why)
	}
	r.Observed["inconclusive"]++
	r.mu.Unlock()
}

// Break records that the check itself misbehaved (e.g. a data race inside harness code).
func (r *Result) Break(why string) {
	r.mu.Lock()
	if len(r.Broken) < 20 {
		r.Broken = append(r.Broken, why)
	}
	r.mu.Unlock()
}

func (r *Result) Assume(s string) {
	r.mu.Lock()
	for _, a := range r.Assumptions {
		if a == s {
			r.mu.Unlock()
			return
		}
	}
	r.Assumptions = append(r.Assumptions, s)
	r.mu.Unlock()
}

func (r *Result) Require(keys ...string) {
	r.mu.Lock()
	r.Required = append(r.Required, keys...)
	r.mu.Unlock()
}

// Merge folds a shard result into r.
func (r *Result) Merge(o *Result) {
	r.mu.Lock()
	defer r.mu.Unlock()
	r.Evaluations += o.Evaluations
	for _, k := range o.DistinctKeys {
		r.Distinct[k] = struct{}{}
	}
	for k := range o.Distinct {
		r.Distinct[k] = struct{}{}
	}
	for _, s := range o.Samples {
		if len(r.Samples) < 8 {
			r.Samples = append(r.Samples, s)
		}
	}
	for k, v := range o.Observed {
		if strings.HasPrefix(k, "max:") {
			if r.Observed[k] < v {
				r.Observed[k] = v
			}
		} else {
			r.Observed[k] += v
		}
	}
	r.Violations = append(r.Violations, o.Violations...)
	r.Broken = append(r.Broken, o.Broken...)
	r.Inconclusive = append(r.Inconclusive, o.Inconclusive...)
	for _, a := range o.Assumptions {
		dup := false
		for _, b := range r.Assumptions {
			dup = dup || a == b
		}
		if !dup {
			r.Assumptions = append(r.Assumptions, a)
		}
	}
	for _, a := range o.Required {
		dup := false
		for _, b := range r.Required {
			dup = dup || a == b
		}
		if !dup {
			r.Required = append(r.Required, a)
		}
	}
	for k, v := range o.Extra {
		r.Extra[k] = v
	}
	r.Exhaustive = r.Exhaustive || o.Exhaustive
}

// Snapshot returns the JSON form of the result as it is now (safe to call while the run continues).
func (r *Result) Snapshot() ([]byte, error) {
	r.mu.Lock()
	defer r.mu.Unlock()
	keys := make([]string, 0, len(r.Distinct))
	for k := range r.Distinct {
		keys = append(keys, k)
	}
	return json.Marshal(map[string]interface{}{
		"property": r.Property, "evaluations": r.Evaluations, "distinct_keys": keys, "samples": r.Samples, "observed": r.Observed,
		"violations": r.Violations, "inconclusive": r.Inconclusive, "assumptions": r.Assumptions, "required": r.Required, "extra": r.Extra,
		"exhaustive": r.Exhaustive, "broken": r.Broken,
	})
}

// Freeze prepares for JSON transport between worker and supervisor.
func (r *Result) Freeze() {
	r.mu.Lock()
	r.DistinctKeys = r.DistinctKeys[:0]
	for k := range r.Distinct {
		r.DistinctKeys = append(r.DistinctKeys, k)
	}
	sort.Strings(r.DistinctKeys)
	r.mu.Unlock()
}

// ---------------------------------------------------------------------------------------------------------------------

type Finding struct {
	Property  string `json:"property"`
	Signature string `json:"signature"`
	What      string `json:"what"`
	Commit    string `json:"commit,omitempty"`
}

type Findings struct {
	Version  int       `json:"version"`
	Findings []Finding `json:"findings"`
	Fixed    []Finding `json:"fixed"`
}

func LoadFindings(path string) (*Findings, error) {
	var f Findings
	b, err := os.ReadFile(path)
	if err != nil {
		if os.IsNotExist(err) {
			return &f, nil
		}
		return nil, err
	}
	if err := json.Unmarshal(b, &f); err != nil {
		return nil, err
	}
	return &f, nil
}

func (f *Findings) Match(v Violation) *Finding {
	for i := range f.Findings {
		if f.Findings[i].Property == v.Property && f.Findings[i].Signature == v.Signature {
			return &f.Findings[i]
		}
	}
	return nil
}

// ---------------------------------------------------------------------------------------------------------------------

// Finish writes the evidence file and replay files, prints the verdict lines, and returns the exit code.
func Finish(verifDir string, r *Result, tier string, seed int64, level string, rule string, start time.Time) int {
	findings, err := LoadFindings(filepath.Join(verifDir, "known_findings.json"))
	if err != nil {
		fmt.Fprintf(os.Stderr, "BROKEN: cannot read known_findings.json: %v\n", err)
		return 2
	}
	r.Freeze()
	known := map[string]*Finding{}
	var fresh []Violation
	for _, v := range r.Violations {
		if f := findings.Match(v); f != nil {
			known[v.Signature] = f
		} else {
			fresh = append(fresh, v)
		}
	}
	knownSigs := make([]string, 0, len(known))
	for s := range known {
		knownSigs = append(knownSigs, s)
	}
	sort.Strings(knownSigs)
	for _, s := range knownSigs {
		fmt.Printf("KNOWN-FINDING: property=%s %s [%s]\n", r.Property, known[s].What, s)
	}

	broken := []string{}
	for _, k := range r.Required {
		if r.Observed[k] == 0 {
			broken = append(broken, k)
		}
	}

	// replay files for fresh violations (one per signature)
	replayDir := filepath.Join(verifDir, "out", "replay")
	_ = os.MkdirAll(replayDir, 0o755)
	seen := map[string]bool{}
	exit := 0
	for i, v := range fresh {
		if seen[v.Signature] {
			continue
		}
		seen[v.Signature] = true
		name := fmt.Sprintf("%s-%s-%d-%d.json", r.Property, tier, seed, i)
		p := filepath.Join(replayDir, name)
		b, _ := json.MarshalIndent(map[string]interface{}{
			"property": v.Property, "signature": v.Signature, "detail": v.Detail, "tier": tier, "seed": seed,
			"scenario": v.Scenario, "witness": v.Witness,
		}, "", " ")
		_ = os.WriteFile(p, b, 0o644)
		fmt.Printf("VIOLATION property=%s replay=%s\n", r.Property, p)
		fmt.Printf("  signature: %s\n  detail: %s\n", v.Signature, truncate(v.Detail, 600))
		exit = 1
	}

	for _, s := range r.Inconclusive {
		fmt.Fprintf(os.Stderr, "INCONCLUSIVE: property=%s %s\n", r.Property, s)
	}

	samples := r.Samples
	if len(samples) == 0 {
		samples = []interface{}{"(no sample recorded)"}
	}
	cov := map[string]interface{}{
		"evaluations":         r.Evaluations,
		"distinct_nontrivial": len(r.Distinct),
		"rule":                rule,
		"samples":             samples,
		"observed":            r.Observed,
		"known_findings_hit":  knownSigs,
		"inconclusive":        len(r.Inconclusive),
	}
	if r.Exhaustive {
		cov["exhaustive"] = true
	}
	for k, v := range r.Extra {
		switch k { // extras never replace a key the evidence schema gives a type to
		case "evaluations", "distinct_nontrivial", "rule", "samples", "states", "transitions", "traces_validated_against_impl", "obligations", "discharged",
			"checker_cmd", "trusted_base", "programs", "disagreements_checked", "explanation", "exhaustive", "observed", "known_findings_hit", "inconclusive":
			k += "_detail"
		}
		cov[k] = v
	}
	ev := map[string]interface{}{
		"property_id": r.Property,
		"tier":        tier,
		"seed":        seed,
		"level":       level,
		"coverage":    cov,
		"assumptions": r.Assumptions,
		"wall_s":      time.Since(start).Seconds(),
		"violations":  len(fresh),
	}
	if r.Assumptions == nil {
		ev["assumptions"] = []string{}
	}
	b, _ := json.MarshalIndent(ev, "", " ")
	_ = os.MkdirAll(filepath.Join(verifDir, "evidence"), 0o755)
	evPath := filepath.Join(verifDir, "evidence", r.Property+".json")
	if os.Getenv("VERIF_REPLAYING") != "" { // a replay must not clobber the evidence of the registered check
		evPath = filepath.Join(replayDir, "evidence-"+r.Property+".json")
	}
	if err := os.WriteFile(evPath, b, 0o644); err != nil {
		fmt.Fprintf(os.Stderr, "BROKEN: cannot write evidence: %v\n", err)
		return 2
	}
	if len(r.Broken) > 0 {
		for _, b := range r.Broken {
			fmt.Fprintf(os.Stderr, "BROKEN: property=%s %s\n", r.Property, truncate(b, 1500))
		}
		return 2
	}
	if os.Getenv("VERIF_REPLAYING") != "" {
		broken = nil // a replay runs one scenario: the observations the whole check requires are not expected of it
	}
	if exit == 0 && len(broken) > 0 {
		fmt.Fprintf(os.Stderr, "BROKEN: property=%s required observations missing: %v\n", r.Property, broken)
		return 2
	}
	if exit == 0 && (r.Evaluations == 0 || (len(r.Distinct) < 2 && os.Getenv("VERIF_REPLAYING") == "")) {
		fmt.Fprintf(os.Stderr, "BROKEN: property=%s observed nothing (evaluations=%d distinct=%d)\n", r.Property, r.Evaluations, len(r.Distinct))
		return 2
	}
	verdict := "held on what was observed"
	if exit != 0 {
		verdict = "VIOLATED"
	}
	fmt.Printf("%s %s: %s — evaluations=%d distinct_nontrivial=%d known_findings=%d inconclusive=%d wall=%.1fs\n",
		r.Property, tier, verdict, r.Evaluations, len(r.Distinct), len(knownSigs), len(r.Inconclusive), time.Since(start).Seconds())
	return exit
}

func truncate(s string, n int) string {
	if len(s) > n {
		return s[:n] + "…"
	}
	return s
}
