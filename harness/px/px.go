//go:build verif

// Package px starts the real proxy in-process against a fakecass cluster and routes the tag-guarded hook events.
package px

import (
	"context"
	"fmt"
	"net"
	"os"
	"strings"
	"sync"
	"sync/atomic"
	"time"

	"github.com/datastax/cql-proxy/proxy"
	"github.com/datastax/cql-proxy/proxycore"
	"github.com/datastax/go-cassandra-native-protocol/primitive"
	"go.uber.org/zap"

	"verif/fakecass"
	"verif/mon"
	"verif/rawcql"
)

// HookEvent is a decoded hook call.
type HookEvent struct {
	Point    string
	Args     []interface{}
	Local    string // backend connection local address (proxy side), if the point has a connection
	Remote   string // backend address host:port
	Endpoint string // pool endpoint for connpool points
	Keyspace string
	Idx      int
	Stream   int16
}

type hookFn func(*HookEvent)

var (
	hooksMu    sync.RWMutex
	hooks      = map[int64]hookFn{}
	hookSeq    int64
	HookCounts sync.Map // point → *int64
)

func init() {
	proxycore.VerifHook = dispatch
}

func dispatch(point string, args ...interface{}) {
	v, _ := HookCounts.LoadOrStore(point, new(int64))
	atomic.AddInt64(v.(*int64), 1)
	hooksMu.RLock()
	if len(hooks) == 0 {
		hooksMu.RUnlock()
		return
	}
	fns := make([]hookFn, 0, len(hooks))
	for _, f := range hooks {
		fns = append(fns, f)
	}
	hooksMu.RUnlock()
	ev := &HookEvent{Point: point, Args: args}
	if len(args) > 0 {
		if a, ok := args[0].(interface{ VerifAddrs() (string, string) }); ok {
			ev.Local, ev.Remote = a.VerifAddrs()
		}
		if p, ok := args[0].(interface {
			VerifEndpoint() string
			VerifKeyspace() string
		}); ok {
			ev.Endpoint, ev.Keyspace = p.VerifEndpoint(), p.VerifKeyspace()
			ev.Remote = ev.Endpoint
		}
	}
	for _, a := range args[1:] {
		switch x := a.(type) {
		case int:
			ev.Idx = x
		case int16:
			ev.Stream = x
		}
	}
	for _, f := range fns {
		f(ev)
	}
}

// HookCount returns how many times a point was reached in this process.
func HookCount(point string) int64 {
	if v, ok := HookCounts.Load(point); ok {
		return atomic.LoadInt64(v.(*int64))
	}
	return 0
}

func addHook(f hookFn) int64 {
	id := atomic.AddInt64(&hookSeq, 1)
	hooksMu.Lock()
	hooks[id] = f
	hooksMu.Unlock()
	return id
}

func removeHook(id int64) {
	hooksMu.Lock()
	delete(hooks, id)
	hooksMu.Unlock()
}

// ---------------------------------------------------------------------------------------------------------------------

type BedConfig struct {
	Hosts             int
	NumConns          int
	Version           primitive.ProtocolVersion
	MaxVersion        primitive.ProtocolVersion
	Keyspaces         []string
	HeartBeat         time.Duration
	Idle              time.Duration
	ConnectTimeout    time.Duration
	ReconnectBase     time.Duration
	ReconnectMax      time.Duration
	IdempotentGraph   bool
	DSEVersion        string
	RPCAddr           string
	DC                string
	Tokens            []string
	Peers             []proxy.PeerConfig
	KeepBodies        bool
	NeverCompress     bool
	Lenient           bool
	RefreshWindow     time.Duration
	PreparedCache     proxycore.PreparedCache
	Cluster           *fakecass.Cluster // reuse an existing cluster (several proxies on one backend)
	Log               *mon.Log
	ReconnectPolicy   proxycore.ReconnectPolicy
	RetryPolicy       proxy.RetryPolicy // nil = the proxy's default policy
	ListenWildcard    bool              // listen on 0.0.0.0 (clients may dial any 127.x.y.z address with the bed's port)
	Logger            *zap.Logger
	BackendMaxVersion primitive.ProtocolVersion
	Unlisted          []int // hosts that exist (listen) but are not in the peers table when the proxy starts
	Tune              func(*fakecass.Config) // last word on the configuration of the bed's own backend (nodes that differ from each other)
}

type Bed struct {
	Cfg        BedConfig
	Cluster    *fakecass.Cluster
	Proxy      *proxy.Proxy
	Addr       string
	Log        *mon.Log
	Policy     *RecPolicy
	cancel     context.CancelFunc
	ln         net.Listener
	hookIDs    []int64
	ownCluster bool
}

var bedMu sync.Mutex // serialises the refresh-window knob with Connect()

func NewBed(cfg BedConfig) (*Bed, error) {
	if cfg.Hosts == 0 {
		cfg.Hosts = 1
	}
	if cfg.NumConns == 0 {
		cfg.NumConns = 1
	}
	if cfg.HeartBeat == 0 {
		cfg.HeartBeat = 30 * time.Second
	}
	if cfg.Idle == 0 {
		cfg.Idle = 60 * time.Second
	}
	if cfg.ConnectTimeout == 0 {
		cfg.ConnectTimeout = 10 * time.Second
	}
	if cfg.ReconnectBase == 0 {
		cfg.ReconnectBase = 20 * time.Millisecond
	}
	if cfg.ReconnectMax == 0 {
		cfg.ReconnectMax = 200 * time.Millisecond
	}
	b := &Bed{Cfg: cfg, Log: cfg.Log}
	if b.Log == nil {
		b.Log = mon.NewLog(cfg.KeepBodies)
	}
	var err error
	if cfg.Cluster != nil {
		b.Cluster = cfg.Cluster
	} else {
		fcfg := fakecass.Config{Hosts: cfg.Hosts, Keyspaces: cfg.Keyspaces, DSEVersion: cfg.DSEVersion, DC: "dc1",
			NeverCompress: cfg.NeverCompress, Lenient: cfg.Lenient, Log: b.Log, MaxVersion: cfg.BackendMaxVersion}
		if cfg.Tune != nil {
			cfg.Tune(&fcfg)
		}
		b.Cluster, err = fakecass.New(fcfg)
		if err != nil {
			return nil, err
		}
		b.ownCluster = true
		for _, i := range cfg.Unlisted {
			b.Cluster.SetListed(i, false)
		}
	}
	ctx, cancel := context.WithCancel(context.Background())
	b.cancel = cancel
	inner := cfg.ReconnectPolicy
	if inner == nil {
		inner = proxycore.NewReconnectPolicyWithDelays(cfg.ReconnectBase, cfg.ReconnectMax)
	}
	b.Policy = NewRecPolicy(inner, b.Log)
	pc := proxy.Config{
		Version:           cfg.Version,
		MaxVersion:        cfg.MaxVersion,
		Resolver:          proxycore.NewResolverWithDefaultPort(b.Cluster.ContactPoints(), b.Cluster.Port),
		ReconnectPolicy:   b.Policy,
		NumConns:          cfg.NumConns,
		Logger:            cfg.Logger,
		HeartBeatInterval: cfg.HeartBeat,
		ConnectTimeout:    cfg.ConnectTimeout,
		IdleTimeout:       cfg.Idle,
		RPCAddr:           cfg.RPCAddr,
		DC:                cfg.DC,
		Tokens:            cfg.Tokens,
		Peers:             cfg.Peers,
		IdempotentGraph:   cfg.IdempotentGraph,
		PreparedCache:     cfg.PreparedCache,
		RetryPolicy:       cfg.RetryPolicy,
	}
	if pc.Logger == nil && os.Getenv("VERIF_PROXY_DEBUG") != "" {
		pc.Logger, _ = zap.NewDevelopment()
	}
	b.Proxy = proxy.NewProxy(ctx, pc)
	bedMu.Lock()
	proxy.VerifSetRefreshWindow(cfg.RefreshWindow)
	err = b.Proxy.Connect()
	proxy.VerifSetRefreshWindow(0)
	bedMu.Unlock()
	if err != nil {
		b.Close()
		return nil, fmt.Errorf("proxy connect: %w", err)
	}
	if cfg.ListenWildcard {
		b.ln, err = net.Listen("tcp4", "0.0.0.0:0")
	} else {
		b.ln, err = net.Listen("tcp", "127.0.0.1:0")
	}
	if err != nil {
		b.Close()
		return nil, err
	}
	b.Addr = b.ln.Addr().String()
	if cfg.ListenWildcard {
		b.Addr = fmt.Sprintf("127.0.0.1:%d", b.ln.Addr().(*net.TCPAddr).Port)
	}
	go func() { _ = b.Proxy.Serve(b.ln) }()
	return b, nil
}

func (b *Bed) Close() {
	for _, id := range b.hookIDs {
		removeHook(id)
	}
	if b.cancel != nil {
		b.cancel()
	}
	if b.Proxy != nil {
		_ = b.Proxy.Close()
	}
	if b.ln != nil {
		_ = b.ln.Close()
	}
	if b.Cluster != nil && b.ownCluster {
		b.Cluster.Close()
	}
	if b.Cluster != nil {
		suffix := fmt.Sprintf(":%d", b.Cluster.Port)
		prefix := b.Cluster.Prefix
		proxycore.VerifForgetConns(func(_, remote string) bool {
			return strings.HasPrefix(remote, prefix) && strings.HasSuffix(remote, suffix)
		})
	}
}

// Mine reports whether a hook event belongs to this bed's cluster.
func (b *Bed) Mine(ev *HookEvent) bool {
	if ev.Remote == "" {
		if len(ev.Args) > 0 {
			if p, ok := ev.Args[0].(*proxy.Proxy); ok {
				return p == b.Proxy
			}
		}
		return false
	}
	return strings.HasPrefix(ev.Remote, b.Cluster.Prefix) && strings.HasSuffix(ev.Remote, fmt.Sprintf(":%d", b.Cluster.Port))
}

// OnHook registers a handler that sees only this bed's hook events; every event is also logged.
func (b *Bed) OnHook(f func(*HookEvent)) {
	id := addHook(func(ev *HookEvent) {
		if !b.Mine(ev) {
			return
		}
		b.Log.Add(mon.Event{Src: "hook", K: ev.Point, Host: b.Cluster.HostIdxOfAddr(ev.Remote), St: int(ev.Stream), Note: ev.Local, Ks: ev.Keyspace})
		if f != nil {
			f(ev)
		}
	})
	b.hookIDs = append(b.hookIDs, id)
}

// Client dials the proxy.
func (b *Bed) Client(version primitive.ProtocolVersion) (*rawcql.Client, error) {
	return rawcql.Dial(b.Addr, version, b.Log)
}

// ReadyClient dials and completes the handshake.
func (b *Bed) ReadyClient(version primitive.ProtocolVersion, comp string) (*rawcql.Client, error) {
	c, err := b.Client(version)
	if err != nil {
		return nil, err
	}
	if err := c.Handshake(comp, 10*time.Second); err != nil {
		c.Close()
		return nil, err
	}
	return c, nil
}

// BackendConns returns live backend connections of all sessions (hook accessor).
func (b *Bed) BackendConns() []*proxycore.ClientConn {
	var out []*proxycore.ClientConn
	for _, s := range b.Proxy.VerifSessions() {
		out = append(out, s.VerifConns()...)
	}
	return out
}

// ---------------------------------------------------------------------------------------------------------------------

// RecPolicy wraps a ReconnectPolicy and records every call (public-interface observation of reconnect behaviour).
type RecPolicy struct {
	inner proxycore.ReconnectPolicy
	log   *mon.Log
	id    int64
	Calls *PolicyCalls
}

type PolicyCall struct {
	L     int64
	ID    int64
	Kind  string // delay | reset | clone
	Delay time.Duration
}

type PolicyCalls struct {
	mu    sync.Mutex
	calls []PolicyCall
	seq   int64
}

func NewRecPolicy(inner proxycore.ReconnectPolicy, log *mon.Log) *RecPolicy {
	return &RecPolicy{inner: inner, log: log, Calls: &PolicyCalls{}}
}

func (p *RecPolicy) rec(kind string, d time.Duration) {
	p.Calls.mu.Lock()
	p.Calls.calls = append(p.Calls.calls, PolicyCall{L: mon.Tick(), ID: p.id, Kind: kind, Delay: d})
	p.Calls.mu.Unlock()
}

func (p *RecPolicy) NextDelay() time.Duration {
	d := p.inner.NextDelay()
	p.rec("delay", d)
	return d
}

func (p *RecPolicy) Reset() { p.inner.Reset(); p.rec("reset", 0) }

func (p *RecPolicy) Clone() proxycore.ReconnectPolicy {
	id := atomic.AddInt64(&p.Calls.seq, 1)
	c := &RecPolicy{inner: p.inner.Clone(), log: p.log, id: id, Calls: p.Calls}
	c.rec("clone", 0)
	return c
}

func (c *PolicyCalls) Snapshot() []PolicyCall {
	c.mu.Lock()
	defer c.mu.Unlock()
	out := make([]PolicyCall, len(c.calls))
	copy(out, c.calls)
	return out
}
