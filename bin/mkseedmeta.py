#!/usr/bin/env python3
"""Writes seeded/<id>/meta.json for the second batch of seeded changes and refreshes the `caught_by_quick` field of all
seeded changes from a matrix file (bin/seedmatrix output: `<seed> <check> rc=<n> <signatures>`)."""
import json, os, sys, collections

V = os.path.dirname(os.path.dirname(os.path.abspath(__file__)))
matrices = sys.argv[1:] or sorted(os.path.join(V, "out", f) for f in os.listdir(os.path.join(V, "out")) if f.startswith("seedmatrix-") and f.endswith(".txt"))

B2 = {
 "C03-1": ("C03", "proxy configured with --unsupported-write-consistencies, a non-SELECT with such a consistency AND a custom payload in the frame", "the re-encoded frame reaches the backend without the client's custom payload"),
 "C03-2": ("C03", "request A retried while another small request B is pipelined on the same client connection, then A is sent once more", "the retry of A carries B's body bytes (body buffer handed back too early)"),
 "C06-1": ("C06", "one DELETE with a delete-by-index followed later by an element deletion with a non-index-like key as the last [..] operation", "statement wrongly classified idempotent"),
 "C06-2": ("C06", "a function call whose name is an empty quoted identifier (\"\"(...)) with idempotent arguments", "classifier panics (index out of range) instead of returning a verdict"),
 "C09-1": ("C09", "current keyspace `system` (USE system) and a SELECT explicitly qualified with another keyspace on a table named local/peers/...", "answered from the virtual system tables, backend never sees it"),
 "C09-2": ("C09", "USE \"System\" (quoted, differs from system by case only) then an unqualified SELECT of local/peers", "answered locally instead of being forwarded"),
 "C10-1": ("C10", "some client first issues a handled system query with a column alias; later statements with the real column name or *", "column metadata of the shared system table is renamed in place: later results carry the alias"),
 "C10-2": ("C10", "peers configured, no explicit tokens, and this proxy's rpc-address is not the smallest in the list", "system.local describes another proxy (nodes[0] after sorting)"),
 "C11-1": ("C11", "BATCH body truncated inside the content of the last positional value of a child", "decoder panics / accepts instead of returning an error"),
 "C11-2": ("C11", "EXECUTE sent with protocol version DSEv1", "result_metadata_id expected in a version that has none: body misparsed"),
 "C13-1": ("C13", "two consecutive frames with the same unsupported version on one connection", "second frame passes the version gate (memo written before the check)"),
 "C13-2": ("C13", "two OPTIONS requests processed within the same few microseconds (pipelined, or several connections)", "SUPPORTED responses share one frame header: wrong stream id / version on the reply"),
 "C15-1": ("C15", "a plan is alive while a host that is not the last element is removed, then the plan is consumed further", "plan skips a live host / yields one twice (published slice edited in place)"),
 "C15-2": ("C15", "one host refresh in which the control node misreports its own rpc_address together with a membership change, then a reconnect", "load balancer never hears of the removal and gets a duplicate add: plans yield a removed host and a host twice"),
 "C17-1": ("C17", "a client makes session creation fail (USE of a keyspace the backend rejects), afterwards any forwarded request", "sessions lock leaked: every later forwarded request hangs (proxy wedged)"),
 "C17-2": ("C17", "backend sends an ERROR frame with a declared body of 1-3 bytes on a stream with a pending request", "proxy process panics (unchecked read of the error code)"),
 "C19-1": ("C19", "endpoint created while the certificate is valid; the certificate expires; a new connection through the same endpoint object", "expired certificate accepted (verification time frozen at endpoint creation)"),
 "C19-2": ("C19", "two endpoints from the same bundle, created X then Y, then a connection for X", "connection for X presents Y's SNI / verifies Y's name (shared tls.Config)"),
 "C20-1": ("C20", "tokens configured, two or more peers, a peer other than the last one without tokens", "configuration accepted although a peer has no tokens"),
 "C20-2": ("C20", "offending num-conns / heartbeat >= idle-timeout value comes from the YAML file rather than from a flag", "proxy starts and serves with the invalid value"),
}

B3 = {
 "C01-3": ("C01", "a request in flight on a backend connection that the PROXY closes itself (idle timeout on a silent connection, pool of a removed host)", "pending requests of that connection are never notified: no reply"),
 "C01-4": ("C01", "a request dispatched to a host whose dead connection is still in its pool slot (between the closing flag and the slot being cleared)", "request refused with Closed is dropped instead of moving on: no reply"),
 "C02-3": ("C02", "a heartbeat answered after its timeout, about 2048 further requests on that connection, the late answer arriving while the reused stream is in flight", "late SUPPORTED delivered to a client QUERY"),
 "C02-4": ("C02", "a retryable backend error whose retry finds the query plan exhausted", "two frames on one stream; with stream reuse the next request gets the stale one"),
 "C04-3": ("C04", "a non-idempotent request in flight on a connection the proxy closes itself (idle timeout, removed host)", "request re-sent to the next host"),
 "C04-4": ("C04", "a backend ERROR frame the protocol library refuses to decode (WRITE_FAILURE with write type CAS, unknown error code)", "request re-sent to the same host for as long as the error keeps coming"),
 "C05-3": ("C05", "two connections per host, the connection in slot 0 lost while slot 1 is up", "healthy host skipped"),
 "C05-4": ("C05", "a BATCH whose non-idempotent child is not the last one, plus a retryable error", "batch treated as idempotent and retried"),
 "C07-3": ("C07", "USE of a quoted keyspace name that is not lower case, then any forwarded request", "requests run on a session connected with the unquoted (case-folded) name"),
 "C07-4": ("C07", "USE, PREPARE, then EXECUTE", "every EXECUTE runs on the session without keyspace"),
 "C08-3": ("C08", ">= 2 pipelined EXECUTEs of one id on one backend connection that lacks it, and that connection lost while the (coalesced) re-PREPARE is unanswered", "the waiting EXECUTEs are never answered"),
 "C08-4": ("C08", "a BATCH with >= 2 distinct prepared children that every host lacks", "host abandoned after the first re-prepare round: 'exhausted query plan'"),
 "C14-3": ("C14", "a refresh that fails on a healthy control connection, then fail-over, then schema changes", "old control connection never closed: every event twice"),
 "C14-4": ("C14", "schema events read by the proxy but not yet dispatched when the control connection ends", "those events are dropped after the reconnect"),
 "C16-3": ("C16", "topology change announced, control connection lost inside the refresh window, fail-over, later topology change", "refresh flag stuck: later changes never applied"),
 "C16-4": ("C16", "a connection that goes silent (not closed) while a request is in flight on it", "heartbeats skipped on 'busy' connections: never replaced"),
 "C17-3": ("C17", "LZ4 frame whose last match overruns the announced length by 1-4 bytes", "slice bounds panic in the read goroutine: process dies"),
 "C17-4": ("C17", "PREPARE of a USE statement as the first intercepted statement a connection prepares", "assignment to entry in nil map: process dies"),
 "C18-3": ("C18", "schema event while a session is being created (listener registered after start-up)", "listeners slice read and appended without ordering"),
 "C18-4": ("C18", ">= 2 pooled connections reconnecting at once", "shared reconnect policy counter written by all stayConnected goroutines"),
 "C03-3": ("C03", "lz4 client, a body with a record of >= 8 bytes repeated back to back, and a path that sends the DECODED form on (override, lz4 batch)", "overlapping LZ4 matches with period >= 8 decode as first period + zeros: backend receives zeros"),
 "C06-3": ("C06", ">= 1024 multi-column (tuple) relations in one statement or batch", "nesting-depth counter leaks on the tuple-relation path: plain statement reported not idempotent"),
 "C06-4": ("C06", "a tuple literal whose first element is a qualified system.now()/system.uuid() call", "reported idempotent (identifier clobbered by a look-ahead)"),
 "C09-3": ("C09", "USE system, then an unqualified system table followed by LIMIT / ALLOW FILTERING / ORDER BY ...", "table name overwritten by the following word: statement forwarded, backend's real system tables reach the client"),
 "C09-4": ("C09", "PREPARE of a system-table SELECT whose select clause the proxy cannot evaluate (JSON, DISTINCT, writetime, CAST, token)", "forwarded to the backend instead of being answered (with an error) by the proxy"),
 "C10-3": ("C10", ">= 2 proxies in the peer list, no explicit tokens, self not the lowest address", "self keeps the placeholder minimum token: two nodes with the same token, views differ"),
 "C11-3": ("C11", "a QUERY/BATCH body truncated inside the last bytes of a [long string]", "length checked against the whole body: slice bounds panic / read past the frame"),
 "C11-4": ("C11", "a BATCH (v4+) with an UNSET bound value in a child", "valid batch rejected (invalid [value] length: -2)"),
 "C12-3": ("C12", "lz4 client, overridden write whose body contains a run / short-period repetition", "overlapping LZ4 matches decoded with memmove: the re-encoded request carries NUL bytes"),
 "C13-3": ("C13", "a DSE maximum version configured and a version-2 frame", "v2 frames accepted and forwarded"),
 "C13-4": ("C13", "a forwarded request, then STARTUP with compression, then a compressed request on the same connection", "per-connection session shortcut ignores compression: compressed frames sent to uncompressed backend connections"),
 "C15-3": ("C15", "a plan alive across: remove the last host, remove the new last host, re-add the former last host", "handed-out plan yields a host twice (tail removals reslice, adds append in place)"),
 "C15-4": ("C15", "a host joins and the refresh announcing it fails (control node misreports its own address), then the reconnect", "Add events sent before the error return and again after the reconnect: host twice in every plan, plus a phantom host"),
 "C19-3": ("C19", "a genuine handshake first, then a forged certificate copying the genuine one's issuer DN and serial number", "'already verified' cache keyed by unverified fields: forgery accepted, CQL bytes sent"),
 "C20-3": ("C20", "tokens for this proxy, its own entry (with tokens) in the shared peers list, and a remote peer without tokens", "own entry counted as a peer with tokens: configuration accepted"),
}
B4 = {
 "C03-4": ("C03", "MaxVersion >= v5/DSE; PREPARE by one version family, EXECUTE by the other, first re-prepare fails, second re-prepare from the cache", "cached PREPARE gets the other version's header with the old body: backend cannot decode it"),
 "C04-5": ("C04", "NOW()/Uuid()/system.UUID() spelled in upper or mixed case plus a retryable fault", "statement classified idempotent and re-sent"),
 "C04-6": ("C04", "an embedder's retry policy that returns RetrySame for error responses, non-idempotent request", "idempotency check only guards RetryNext: request re-sent to the same host"),
 "C05-5": ("C05", "a retryable error whose frame carries a tracing id / warnings / custom payload, or is compressed", "error code peeked without looking at the flags: no retry"),
 "C05-6": ("C05", "two connections per host, one lost, a request before the first reconnect attempt has run", "closed connection left in its slot: healthy host skipped"),
 "C06-5": ("C06", ">= 1024 UDT literals in one statement or batch", "nesting-depth counter leaks per UDT literal: plain statement reported not idempotent"),
 "C06-6": ("C06", "now()/uuid() qualified with SYSTEM / System / \"system\"", "keyspace compared without case folding: reported idempotent"),
 "C07-5": ("C07", "a compressed session exists, then a host joins, then a compressed request is routed to it", "late pools handshake without compression"),
 "C08-5": ("C08", "a prepared statement of a kind the proxy does not classify (TRUNCATE, GRANT ...) or a shared prepared cache", "EXECUTE answered UNPREPARED by the proxy itself"),
 "C09-5": ("C09", "qualified system table followed by LIMIT / ALLOW FILTERING / ORDER BY", "table name overwritten by the following word: read forwarded"),
 "C09-6": ("C09", "the identical unqualified text first outside keyspace system, then inside", "'not handled' verdict cached by text only: system read forwarded"),
 "C10-4": ("C10", "peers configured, no tokens, self not the lowest address", "precomputed peers slice aliases the array that is sorted afterwards: self listed as a peer"),
 "C10-5": ("C10", "no rpc-address, clients arriving through different local addresses", "host_id memoised proxy-wide: the first client's address decides for all"),
 "C12-4": ("C12", "override level ANY (wire value 0)", "taken for unset and replaced by LOCAL_QUORUM"),
 "C12-5": ("C12", "EXECUTE of an unknown id (UNPREPARED), then PREPARE of the SELECT, then EXECUTE, on one connection", "stale per-connection 'not a SELECT' cache: SELECT rewritten"),
 "C13-5": ("C13", "STARTUP with lz4, then a compressed bodiless OPTIONS", "zero length prefix rejected: connection closed"),
 "C14-5": ("C14", "control fail-over that first tries a node speaking only an older version", "turned-down connection stays registered: every event twice"),
 "C14-6": ("C14", "REGISTER [SCHEMA_CHANGE], later REGISTER without it on the same connection", "second REGISTER replaces the first: client stops getting events"),
 "C15-5": ("C15", "a remove-only refresh of host X, then X rejoins", "host list kept unless something was added: X never announced again"),
 "C15-6": ("C15", "endpoints that share Addr() and differ in Key() (Astra), host joining after bootstrap", "AddEvent ignored for a 'known' address"),
 "C16-5": ("C16", "a lost pooled connection whose first reconnect is answered with an error other than refused/reset/EOF", "slot stops reconnecting for good"),
 "C17-5": ("C17", "EXECUTE / BATCH child with a prepared id shorter than 16 bytes, answered with an error that triggers the idempotency lookup", "slice-to-array conversion panics: process dies"),
 "C18-5": ("C18", "schema event while a client reads system.local/peers", "unsynchronised map write in OnEvent"),
 "C18-6": ("C18", "two UNPREPARED answers on different backend connections at once", "LRU Get (a write) under a read lock"),
 "C19-4": ("C19", "impostor presenting its own certificate followed by a copy of the genuine one", "any certificate of the list may serve as the verified leaf: impostor accepted"),
 "C20-4": ("C20", "unsupported-write-consistency-override any", "zero value defaulted to LOCAL_QUORUM: 'any' and 'local_quorum' select the same value"),
}
B5 = {
 "C01-5": ("C01", ">= 2 requests for one prepared id in flight on one backend connection that lacks it, all answered UNPREPARED while the first re-PREPARE is unanswered, and that connection lost before the PREPARE is answered", "coalesced re-prepare forgets its waiters on connection loss: they are never answered"),
 "C01-6": ("C01", "more than 1024 responses queued for one client connection at once (a client that pipelines thousands of requests and reads slowly)", "Conn.Write no longer blocks; the response paths ignore its error: responses silently dropped"),
 "C02-6": ("C02", "a statement already prepared through the proxy, then >= 2 PREPAREs of it handled before the write loop encodes the first answer (pipelined, or from several clients)", "cached PREPARE responses share one frame header: answers go out with another request's stream id"),
 "C03-5": ("C03", "override configured, an uncompressed QUERY/EXECUTE write at an unsupported consistency AND a custom payload in front of the message", "consistency patched in place at an offset counted from the message start: two unrelated body bytes overwritten"),
 "C03-6": ("C03", ">= 2 responses handed to the client connection before its write loop drained the first (pipelined requests, several clients)", "responses encoded into a pooled buffer that is reused while still queued: mixed / duplicated frames at the client"),
 "C04-8": ("C04", "PREPARE of an idempotent text answered with id X, PREPARE of a non-idempotent text answered with X again, EXECUTE X ending in an error or connection loss", "idempotency metadata written only by the first PREPARE of an id: non-idempotent EXECUTE re-sent"),
 "C05-8": ("C05", "a request has made its first attempt, a refresh removes a host that sits before an unvisited slot of its plan, then the request fails over", "host removed by splicing the published slice in place: last host tried twice, one host never tried"),
 "C06-7": ("C06", "a statement that ends inside the type-parameter list of a cast, e.g. `... SET a = (map<int`", "type-parameter skipping loop has no EOF case: IsQueryIdempotent never returns"),
 "C07-6": ("C07", ">= 2 clients with the same version and compression send USE of the same uncached keyspace while the first attempt is in flight, and that attempt fails", "waiters of a failed session attempt wake up with (nil, nil): answered SET_KEYSPACE and switched to the bad keyspace"),
 "C09-7": ("C09", "on one connection: a QUERY text, PREPARE of `USE x`, EXECUTE of it, the same QUERY text again", "per-connection parse cache dropped on a USE query but not on an executed prepared USE: stale handled/not-handled verdict"),
 "C10-6": ("C10", "no rpc-address, proxy reachable through several local addresses, client A reads system.local first, client B through another address afterwards", "local host_id computed once per proxy: B gets rpc_address=addr2 with host_id=uuid3(addr1)"),
 "C11-5": ("C11", "a BATCH whose last [value] of a child carries a length of -3 or lower inside a specific window", "value skipped by seeking: a negative length seeks backwards and BytesSince slices [pos:smaller]: panic"),
 "C11-6": ("C11", "a BATCH with a custom payload in front of the message in an uncompressed frame, re-encoded (override)", "the batch keeps its raw head bytes from offset 0 of the frame body: payload written twice, length wrong"),
 "C13-7": ("C13", "version byte 0x01 (or 0x81) sent in its real 8-byte v1 frame layout", "new 'reject unknown version' path assumes the 9-byte header: neither error nor close, the next frame is eaten"),
 "C14-7": ("C14", "a registered client whose connection is dead but still in the event set (stuck in a slow USE), other registered clients behind it in the walk", "per-client send returns false to sync.Map.Range: delivery of that event stops for the clients after it"),
 "C15-7": ("C15", "a topology event schedules a refresh, the control connection is lost before the window elapses, later membership changes", "refresh timer stopped on control loss with the pending flag left set: no later event schedules a refresh, plans keep a removed host"),
 "C15-8": ("C15", "about 2^32 plans handed out and a host count that does not divide 2^32", "plan offset narrowed to uint32: two consecutive plans start at the same host when the counter crosses a multiple of 2^32"),
 "C17-6": ("C17", "a backend ERROR frame with flags = TRACING and a body shorter than 16 bytes on a pending stream", "tracing id skipped without a length check before the error code is peeked: slice bounds panic, process dies"),
 "C17-7": ("C17", "proxy listening with TLS (--proxy-cert-file) and a client that connects and stalls inside the handshake", "handshake completed synchronously in the accept loop without deadline: no later client can connect"),
 "C18-8": ("C18", ">= 2 statements in the prepared cache and two UNPREPARED answers processed at once on different backend connections", "prepared-cache Load takes only a read lock although the LRU's Get moves list links"),
 "C19-6": ("C19", ">= 2 nodes behind one SNI-proxy address: connect to node A, then to another endpoint at the same address", "TLS config (with session cache) memoised per resolved address in proxycore.Connect: later nodes get A's SNI, resumed sessions skip verification"),
 "C20-6": ("C20", "an invalid value (unknown version name, version above max, num-conns 0, heartbeat >= idle) that comes from the YAML file", "checks moved into a Validate() hook that runs before the file is applied: the proxy starts and serves"),
}
B6 = {
 "C01-7": ("C01", "a client with more than 1024 responses queued that stops reading for longer than the new client write timeout (5 s) and then resumes", "Conn.Write gives up on a full queue after a timeout; the response paths ignore its error: responses dropped, client stays connected"),
 "C01-8": ("C01", "a proxy-made error (query plan exhausted, non-idempotent connection loss) queued for a client while another request is accepted before the write loop encodes it (pipelined requests during a backend outage)", "request objects recycled through a sync.Pool: the queued error is written with the next request's stream id"),
 "C03-7": ("C03", "an uncompressed QUERY/EXECUTE/BATCH whose parameter section exceeds 48 bytes, answered with a retryable error", "log argument built with append(params[:48], \"...\") on a slice aliasing the frame body: three body bytes overwritten on every re-send"),
 "C04-7": ("C04", "a prepared id never prepared through this proxy, behind it a conditional write; one successful EXECUTE (rows: [applied]), then an EXECUTE that fails", "ids 'learnt' as idempotent SELECTs from the first ROWS result: conditional write re-sent"),
 "C04-9": ("C04", "the new --request-timeout option enabled (off by default), a backend slower than the timeout, a non-graph non-idempotent request", "timeout handler looks at a state that is only set for graph requests and PREPAREs: request re-sent although the slow node may still apply it"),
 "C05-7": ("C05", "an idempotent request whose connection is lost while it is pending, then UNAVAILABLE / an eligible READ_TIMEOUT / a batch-log WRITE_TIMEOUT from the next host", "connection loss counted into retryCount (for a log line): the one policy retry is used up"),
 "C05-9": ("C05", "an EXECUTE traversing >= 2 hosts that all lack the statement, the first answering a move-on error after its re-prepare", "re-prepare allowance counted per request, not per host: later hosts are re-prepared and skipped, 'exhausted query plan'"),
 "C06-8": ("C06", "comment markers inside a quoted identifier or a $-string, e.g. VALUES (1, $/*$, now(), $*/$)", "new comment stripping skips only '...' literals: the text between the markers disappears, hiding non-idempotent constructs"),
 "C06-9": ("C06", "in one process: a look-alike that means something else (\"NOW\"() user function, \\v / NBSP whitespace) classified before the statement itself", "verdicts memoised under a key that folds case and whitespace everywhere: the first text of a pair decides both"),
 "C09-8": ("C09", "a QUERY frame carrying a graph-source custom payload whose text is a system-table SELECT or USE", "graph fast path forwards without parsing: system reads and USE reach the backend"),
 "C10-7": ("C10", ">= 2 different system queries pipelined on one connection, the writer lagging the reader", "rows built in a per-connection buffer that is reused while an earlier answer is still queued: answers carry the next query's values"),
 "C11-7": ("C11", "a BATCH body cut or corrupted inside the content of a positional value (announced length beyond the remaining bytes)", "values skipped with Seek, which may move past the end: the next BytesSince panics / reads behind the frame"),
 "C12-7": ("C12", "override configured, >= 2 overridden requests of the same kind decoded before the backend writer encodes the first (pipelined / concurrent)", "partially decoded messages pooled and released at the end of Receive although the override frame still points at them: writes go out with the next request's content"),
 "C13-6": ("C13", "two READY-producing requests (STARTUP, REGISTER) with different stream ids pipelined on one connection", "READY encoded once into a per-connection buffer whose stream id bytes are rewritten while an earlier READY is still queued"),
 "C13-8": ("C13", "an OPTIONS frame in a known version above the configured maximum or below v3", "bodiless-OPTIONS fast path placed in front of the version gate: answered SUPPORTED"),
 "C14-9": ("C14", "a registered client whose outgoing queue is full (it pipelined thousands of requests and reads late) when a schema change arrives", "event delivery made non-blocking: the event is skipped for that client, which stays connected"),
 "C15-9": ("C15", "membership shrinks while the plan counter is at or above the new host count, then >= 2 plans", "counter reset inside the host count with a CAS helper: consecutive plans start at the same host"),
 "C15-10": ("C15", "control connection lost together with a membership change, or a reconnect to a node whose system.peers is incomplete", "hosts missing from a freshly reconnected node are kept but forgotten by the cluster: removed host never leaves the plans / host twice"),
 "C16-6": ("C16", "host removed, listed again within the new 5 s drain period, then the drain timer fires", "drain timer deletes the pool by host key although the re-add kept it: the host is in every plan with no pool, for good"),
 "C16-7": ("C16", "STATUS_CHANGE DOWN events for the other hosts, then the control connection lost before the matching UP events", "hosts marked down are passed over when reconnecting and UP can only arrive over the control connection: never fails over"),
 "C17-9": ("C17", "a backend UNPREPARED error whose id length field claims more than the body's capacity", "id read straight from the raw body trusting its length field: slice bounds panic, process dies"),
 "C18-7": ("C18", "a heartbeat tick on a pooled connection that has delivered a forwarded response (short heartbeat interval, or a long run)", "lastResponse time written by the read loop and read by the heartbeat goroutine without synchronisation"),
 "C18-9": ("C18", ">= 2 connections per host and two goroutines sending to the same pool at once", "round-robin cursor 'guarded by connsMu' updated under the read lock in leastBusyConn"),
 "C19-5": ("C19", "one genuine server accepted through any endpoint of the bundle, then an impostor whose leaf copies the genuine leaf's SubjectKeyId", "verification results cached per SubjectKeyId: self-signed / wrong-CA leaf accepted"),
 "C19-7": ("C19", "a second bundle with a different CA loaded in the same process", "system root pool built once and shared; every bundle's CA is appended to it: servers under the other bundle's CA accepted"),
 "C20-7": ("C20", "protocol-version spelled v4 explicitly together with max-protocol-version v3", "'default version follows a lowered max' cannot tell the default from an explicit v4: starts and speaks v3"),
}
B7 = {
 "C01-9": ("C01", "an UNPREPARED answer for a cached statement handled while the pooled connection is being closed from the proxy's own side (idle timeout, host removal), so that the re-PREPARE cannot be sent", "the request moves on only for StreamsExhausted; for any other send error nobody holds it any more: never answered"),
 "C01-10": ("C01", "USE of the keyspace the connection is already in (same spelling), as QUERY or as a prepared USE executed twice", "'skip the session lock if nothing changes' wraps the whole handling, the SET_KEYSPACE answer included: no response"),
 "C02-7": ("C02", "a saturated backend connection that has refused about 63.5k requests over its life, then a request while low stream ids are still in flight", "stream ids handed out from a 16-bit counter that also advances on refusals: an id in use is handed out again, answers swapped"),
 "C03-9": ("C03", "an lz4 client and a request body in which a later part repeats the first bytes of the body (a match copied from offset 0)", "off-by-one in the match bound of the LZ4 block decoder: valid block rejected, connection dropped, nothing forwarded"),
 "C05-11": ("C05", "about 2^32 requests on one proxy, a host count that is not a power of two, and a request that needs retries right before the wrap", "plan offset narrowed to uint32 and added to the index without reducing it first: one host twice, one never, inside a single plan"),
 "C06-10": ("C06", "a textual BATCH with a child INSERT ... USING TTL/TIMESTAMP that is not followed by ';' and a non-idempotent next child", "the token after the USING clause is swallowed: the next child is never classified, batch reported idempotent"),
 "C07-7": ("C07", "USE ending in ';' (cqlsh style)", "new end-of-statement check in the USE recogniser forgets the ';' token: the USE is forwarded like a data query, the client's keyspace is not updated and a shared pooled connection is"),
 "C08-6": ("C08", "a client that negotiated lz4/snappy, a PREPARE carrying a custom payload, an EXECUTE routed to a host that lacks the statement", "cached PREPARE rebuilt with NewFrame: custom payload flag and payload dropped from every re-PREPARE"),
 "C08-7": ("C08", "a BATCH with a prepared child routed to a host without the statement", "early return for requests that 'cannot be UNPREPARED' decides by opcode EXECUTE only: UNPREPARED answers to batches reach the client"),
 "C09-9": ("C09", "max protocol version v5/DSEv2, a PREPARE that names its keyspace (WITH_KEYSPACE) and an unqualified look-alike table", "handled/forwarded decision made with the connection's keyspace instead of the PREPARE's"),
 "C09-10": ("C09", ">= 2 connections prepare the same system statement (or USE), one of them closes, a survivor executes its id", "proxy-wide map of proxy-answered prepared statements cleaned when any owner closes: EXECUTE forwarded to the backend"),
 "C10-9": ("C10", "a peer rpc-address whose text is not canonical (expanded or upper-case IPv6, IPv4-mapped, host name)", "peer host ids computed once from the configured text instead of the resolved address: differ from what that peer presents as local"),
 "C11-9": ("C11", "QUERY or EXECUTE whose consistency is SERIAL or LOCAL_SERIAL", "consistency validation added with IsNonSerial(): valid body rejected, connection dropped"),
 "C12-8": ("C12", "a SELECT prepared on connection A, A closes, the id executed on connection B with a consistency in the list", "per-connection clean-up deletes the shared prepared-id metadata: prepared SELECT treated as a write and rewritten"),
 "C13-10": ("C13", "STARTUP with COMPRESSION spelled in upper or mixed case", "backend handshake indexes the codec map with the raw spelling: READY to the client, but no backend session can be created"),
 "C14-10": ("C14", "more than one REGISTER naming SCHEMA_CHANGE on one connection (or the type listed twice)", "event clients kept in a slice without idempotent insert: every event k times, stale entries after disconnect"),
 "C15-12": ("C15", "a topology event, then the control connection lost and down for longer than the refresh window, then fail-over and later changes", "expired refresh timer drained while disconnected without clearing the pending flag: later events ignored"),
 "C16-9": ("C16", ">= 45 reconnect attempts without a success (hours of outage with the default policy)", "attempt counter no longer bounded: the shift overflows, negative / tiny delays"),
 "C17-10": ("C17", "a client that fills its queue without reading and then goes away (or is disconnected)", "Conn.Write no longer selects on the closed channel while waiting for queue space: backend read loops stay blocked, other clients unanswered"),
 "C18-10": ("C18", "clients of two protocol versions using one prepared statement, both answered UNPREPARED at once", "version written into the header of the shared cached PREPARE frame"),
 "C18-11": ("C18", "loss and re-establishment of the control connection while clients send OPTIONS / system reads", "Cluster.Info reassigned on every reconnect while client read loops read it"),
 "C19-9": ("C19", "an endpoint that has once been shown a chain containing the intermediate, then a server presenting only a leaf under it", "intermediates pool kept per endpoint across handshakes: incomplete chain accepted"),
}
B8 = {
 "C01-11": ("C01", "a second goroutine calling Send() on a backend connection while its reader is inside Closing()", "Closing() notifies the pending requests before it sets the closing flag: a request registered in between is accepted and never notified"),
 "C01-12": ("C01", "a request sent on a failed backend connection whose reader has not yet run Closing(), with Conn.Write taking the closed branch", "Send() calls the request's OnClose itself on a write failure - under the request mutex its caller holds: the client's read loop deadlocks"),
 "C02-8": ("C02", "a retryable error response when no host can take the retry (plan used up, connections gone), then the client reusing the stream", "executeInternal reports 'not sent', so the backend's error frame is sent in addition to the 'exhausted query plan' error: two frames on one stream"),
 "C04-11": ("C04", "a non-idempotent request coalesced in a write pass behind a large request, pushed out by a buffer-full flush and applied, then the connection lost before the pass ends", "'never flushed' marks are only cleared after the explicit flush: an applied request counts as unsent and is re-sent"),
 "C05-12": ("C05", "an idempotent request in flight on a connection the proxy closes itself (idle timeout, host removed)", "OnClose with error Closed answers a server error instead of moving on to the next host"),
 "C06-11": ("C06", "concurrent classification with more than 128 distinct statements in circulation", "verdict memo: slot number looked up lock-free, slot read under the mutex without re-checking its owner: another statement's verdict returned"),
 "C07-9": ("C07", "the backend answers the proxy's own USE on new pooled connections with OVERLOADED / IS_BOOTSTRAPPING", "those errors treated as non-critical when the pool connects: session reported connected, client told SET_KEYSPACE for a keyspace no connection confirmed"),
 "C08-9": ("C08", "a host that lacks the statement refuses its re-PREPARE once, then a later EXECUTE of the id on the same backend connection", "'being prepared' marker of the coalescing map only removed on success: later requests park behind an answered PREPARE forever"),
 "C09-11": ("C09", "a USE the backend rejects, then unqualified system-table names", "client keyspace assigned before the session is created and not restored on failure: routing decisions made for the rejected keyspace"),
 "C10-8": ("C10", ">= 2 contact points, the first passing handshake and system queries but not listed under its own address, the second differing in DC / release / DSE-ness", "'initial' derived from NegotiatedVersion == 0, which the failed first attempt already set: cluster facts stay those of the first contact point"),
 "C10-10": ("C10", "multi-DC backend, no data center configured, system.peers answered before system.local", "system tables queried concurrently, local DC taken from hosts[0] in arrival order"),
 "C11-8": ("C11", "a decoded BATCH still in use when the next BATCH is decoded (override, retry, idempotency check)", "children appended into a pooled scratch slice that is returned to the pool while the result still points into it"),
 "C11-10": ("C11", "one malformed BATCH (invalid child kind) on the bytes.Buffer path, then >= 2 goroutines decoding on that path", "pooled reader released twice on that error path: two decoders share one reader"),
 "C12-9": ("C12", "a SELECT evicted from the proxy's prepared cache, an UNPREPARED error passed through to one client, then another client executing the id at a listed consistency", "UNPREPARED pass-through deletes the shared prepared-id metadata: prepared SELECT treated as a write"),
 "C13-9": ("C13", "STARTUP with an unknown compression (ERROR), then STARTUP without compression on the same connection, then a forwarded request", "compression name stored before it is validated: later requests look for a session with the rejected compression"),
 "C13-11": ("C13", "an accepted frame first, then a frame of an unsupported version on the same connection", "version check done only until the connection's first accepted frame"),
 "C15-13": ("C15", "a topology event reaching the proxy between the control node reading its peers table for a refresh and the refresh finishing", "events waiting when a refresh returns are dropped as 'already covered'"),
 "C16-8": ("C16", "a topology change announced during a control-connection fail-over, after the new connection's system tables were read", "events queued during the outage discarded after the reconnect"),
 "C16-10": ("C16", "a refresh query answered with an error on a healthy control connection while reconnects keep failing", "control connection set to nil on that path: the branch that starts the outage clock is skipped"),
 "C17-11": ("C17", "the backend rejects the proxy's handshake for a client's (version, compression) combination; the second request with that combination", "failed session remembered as a nil map entry that the read-locked fast path returns: nil dereference, process dies"),
 "C18-12": ("C18", "removal of a host that is not last, with a request whose plan predates it walking on afterwards", "host deleted in place in the slice shared with handed-out plans"),
 "C18-13": ("C18", ">= 2 connections per host and a backend connection lost while requests are routed to that host", "pool reads ClientConn.closing holding only its own lock"),
 "C19-8": ("C19", ">= 2 handshakes through one endpoint overlapping at verification with the same bad chain", "single-flight verification whose deferred finish() captured err == nil: waiters are told the chain verified"),
 "C19-10": ("C19", "a good connection (ticket received), the same server process then holding a bad certificate, a reconnect", "ClientSessionCache added while verification lives in VerifyPeerCertificate with InsecureSkipVerify: resumed sessions skip every check"),
 "C20-5": ("C20", ">= 2 contact points, the first negotiated down to a lower version and then failing at its last step, the second supporting the configured version", "handshake start version taken from state the failed attempt left behind: proxy runs at the lower version"),
}
B9 = {
 "C05-13": ("C05", "first use of a prepared statement on a node that lacks it (UNPREPARED, transparent re-prepare), then a count-limited retryable error (unavailable, read timeout with enough responses, batch-log write timeout)", "the re-execution behind the re-prepare goes through the retry helper and uses the one retry up: the first such error is returned instead of retried"),
 "C07-8": ("C07", "clients of different keyspaces / compressions on one proxy: a session with an empty keyspace or no compression created after one that has them (also after a failed USE)", "session settings built once and aliased: keyspace and compression of the session created last leak into the next"),
 "C07-10": ("C07", "two clients in different keyspaces preparing the same statement, or USE ks1, PREPARE, USE ks2, EXECUTE on one connection", "EXECUTE routed to the keyspace remembered proxy-wide for the prepared id instead of the connection's keyspace"),
 "C08-10": ("C08", "a client that has changed its keyspace, a statement on a table not qualified with a keyspace, every node having lost the statement", "EXECUTE routed through the session without keyspace: the re-PREPARE runs on a connection without keyspace and never yields the client's id"),
 "C10-12": ("C10", "two Proxy instances in one process (Go API), one in front of a DSE backend, one in front of a non-DSE backend", "per-proxy column table aliases the package-level map: after the DSE proxy connected every proxy presents the DSE columns"),
 "C12-10": ("C12", "a client whose protocol version differs from the control connection's, a write with a listed consistency", "the overridden frame is built with the control connection's negotiated version: a v4 frame on a v3 backend connection"),
 "C14-11": ("C14", ">= 2 contact points of which an earlier one reaches a node under an address it does not advertise, a later one that works", "connect()'s deferred close no longer sees the error of its last step: the given-up connection stays registered and every event arrives twice"),
 "C18-15": ("C18", "backend nodes that differ in release / CQL / DSE version, the control connection re-established on another node while clients send OPTIONS / system reads", "Cluster.Info fields rewritten on reconnect without synchronisation"),
 "C20-8": ("C20", "a frame of a version above max-protocol-version (refused), then another frame of that version on the same connection", "version validated only when it differs from the remembered one, which is updated before the validation: the connection is then served in the refused version"),
}
B10 = {
 "C02-9": ("C02", "the proxy answering forwarded requests itself (node down, plan used up) for several clients at once while a client's write loop lags (slow reader, pipelining)", "request objects pooled and handed back before the queued closure that reads stream / version / codec has run: the error frame carries another request's stream id"),
 "C03-8": ("C03", "override configured, an uncompressed non-SELECT EXECUTE at a listed consistency from a v5 / DSEv2 client", "consistency overwritten in place at an offset that leaves out result_metadata_id: its length prefix is overwritten, the real consistency untouched"),
 "C03-10": ("C03", "an lz4 frame that the override re-encodes, with a run of >= 64 bytes of a repeating non-zero pattern in the body", "lz4 decoder copies long overlapping matches in doubling chunks from a source slice that includes unwritten bytes: pattern + zeros"),
 "C07-11": ("C07", "USE of a keyspace the backend refuses, the cause goes away (keyspace created), USE of it again by any client", "in-flight table of session attempts only cleaned on success: every later USE of that keyspace is answered with the stale error"),
 "C10-13": ("C10", "the same bare table name (local / peers) sent as QUERY before and after USE system on one connection", "handled-or-forwarded decision cached per connection by text only: the read after USE system is forwarded, the client sees the backend's tables"),
 "C11-11": ("C11", "EXECUTEs of both version families (v3/v4/DSEv1 and v5/DSEv2) decoded by one process", "result-metadata-id layout decided by the first EXECUTE the shared codec instance sees"),
 "C11-12": ("C11", "BATCH with bound values in a frame that carries a custom payload, decoded on the uncompressed path", "children's values sliced from the frame body at an offset relative to the message"),
 "C13-12": ("C13", ">= 2 connections that negotiated lz4 sending compressed frames at overlapping times", "decode buffer kept in the one lz4 compressor all lz4 connections share: a frame is decoded with bytes of another connection's frame"),
 "C13-13": ("C13", "the proxy embedded with its own protocol version above the maximum for clients (proxy.Config through the Go API), a backend that accepts that version", "negotiated version raises the maximum accepted from clients: frames above the configured maximum are served"),
 "C16-12": ("C16", "a pooled connection replaced once (or belonging to a host added later) that then stops answering without FIN / RST", "heartbeats started for the connections a pool starts with only: replacements have no heartbeats and no idle timer"),
 "C17-8": ("C17", "backend answers the proxy's own heartbeat with UNPREPARED (id in the prepared cache) carrying warnings / tracing id / custom payload, then answers the PREPARE", "guards for the connection's own requests sit only in the fast path that reads the error code from the plain body: panic 'not implemented'"),
}
B11 = {
 "C01-13": ("C01", "a client that does not read: its queue and socket buffers fill, the proxy closes it after the write timeout while a backend read loop is blocked queueing a response for it", "Conn.Write split into a non-blocking look at 'closed' and an unconditional send: the blocked writer is never released, every client with requests on that backend connection gets no response"),
 "C01-14": ("C01", "UNPREPARED answers still buffered on a backend connection that is already marked closed, so that the proxy's re-PREPARE cannot be queued", "that send failure treated as 'OnClose will take care of it': neither the request nor the PREPARE is pending any more, the request vanishes"),
 "C04-10": ("C04", "a client goroutine between the closing check and the registration of its request while the connection's read loop sets the flag and sweeps the pending table", "closing check moved out of the lock that covers the registration: the request sits on a dead connection, the client is never answered"),
 "C04-12": ("C04", "UNPREPARED for a cached statement at a moment the proxy's own PREPARE cannot be sent (connection closing, no stream ids), a next host that has the statement", "missing return after passing the request on: the UNPREPARED frame is also delivered to the client, which prepares and sends again - applied twice"),
 "C07-12": ("C07", "a client that did USE ks, a backend connection of its session lost and re-established, the backend refusing the USE of the re-connect, a request routed there inside the window", "re-connects queue their USE without waiting for the answer: the connection enters its pool slot before its keyspace is set"),
 "C09-12": ("C09", "the proxy's own USE on the new session's connections failing with something that is not a CQL error (connect timeout), then a bare local / peers read", "client keyspace set before the session exists and restored only for CQL errors"),
 "C13-14": ("C13", "two clients of the same version and keyspace and different compression whose first requests fall into the time the first one's session takes to connect", "single-flight session connect named without the compression: the waiter is handed the other algorithm's session"),
 "C14-12": ("C14", "a schema change at the moment the re-established control connection registers: EVENT frame right behind the READY", "events passed on only once a 'registered' flag is set, which the handshake goroutine sets after the read loop has already met the EVENT"),
 "C15-11": ("C15", "a reconnect whose last step fails (node reports another rpc_address) while a host is unknown to the proxy, then a connect that succeeds", "add notifications sent before the check that can still fail: the next merge sends them again, the load balancer appends the host twice (and keeps the foreign address)"),
 "C15-14": ("C15", "a listener registered (new session) a few hundred microseconds before a refresh or reconnect merge", "bootstrap notification delivered from a goroutine of its own: add / remove notifications overtake it and its stale host list then overwrites them"),
 "C17-13": ("C17", "the peer killing a connection at the instant its owner closes it (refused handshake cleaned up by the pool)", "already-closed check of Conn.Close moved out of the critical section: close of closed channel, 24 times in 400 000 natural attempts"),
 "C18-16": ("C18", "a topology event and its refresh, then a new session, a second refresh or a control reconnect", "host refresh runs in a goroutine of its own while the event loop keeps using hosts / listeners / currentHostIndex"),
}
B12 = {
 "C03-12": ("C03", "override configured, a DSEv1 client, a non-SELECT EXECUTE at a listed consistency", "EXECUTE encode and encoded-length gate the result-metadata id on 'version >= v5' (DSEv1 = 0x41) while decode keeps the right test: two extra bytes in front of the consistency"),
 "C02-10": ("C02", "two backend connections each answered UNPREPARED for the same id, their write loops interleaved, different stream ids on the two connections", "raw frames get their stream id written in place - the cached PREPARE frame is shared by every connection that re-prepares the id: one connection's PREPARE goes out with the other's stream id"),
 "C04-13": ("C04", "a first attempt answered with an always-retried outcome (unavailable, bootstrapping, retriable read timeout), the second with a write timeout / overloaded / server error, >= 3 hosts", "retry decision kept as request state and never reset: the previous attempt's decision is applied again"),
 "C04-14": ("C04", "a BATCH with a prepared child whose id was never prepared through this proxy, an attempt that may have applied it", "batch path treats an id without metadata as idempotent while the EXECUTE path still refuses"),
 "C06-12": ("C06", "two different statements with the same 32-bit hash and different ground truth, classified one after the other", "verdict cache keyed by a 32-bit hash of the text only"),
 "C06-13": ("C06", "one statement with >= 1024 multi-column relations (large batch of range deletes)", "nesting counter not decremented on one successful return: every multi-column relation leaks a level"),
 "C11-13": ("C11", "a BATCH re-encode whose writer fails part way, then any later BATCH encode in the process", "pooled scratch buffer returned dirty after a failed write: the next frame starts with the tail of the failed one"),
 "C11-14": ("C11", "EXECUTE / BATCH body truncated inside an id that is preceded by enough other bytes (second id of a v5 EXECUTE, a BATCH child id)", "zero-copy id reader checks the declared length against the whole body instead of the bytes left: panic or read past the frame"),
 "C12-11": ("C12", "a non-SELECT request whose consistency short is no defined level but shares its low four bits with a listed one (0x0014 against QUORUM)", "lookup table indexed with consistency & 0xf: the request is rewritten to the override and executed"),
 "C13-15": ("C13", "two refused frames of different versions on one connection (the sequence a downgrading driver produces)", "the protocol error is built once per connection and reused: later refusals name the first refused version"),
 "C15-15": ("C15", "a host added (or bootstrapped), removed, and added again", "set of known host keys not updated on removal: the second add is swallowed"),
 "C18-17": ("C18", "one client connection that pipelines: an EXECUTE handled while a PREPARED result for the same connection is processed, or two PREPAREs completing on different backend connections", "per-client map written on the response path and read on the request path"),
}
B13 = {
 "C01-16": ("C01", "an UNPREPARED answer already read (or arriving) for an EXECUTE when something other than the read loop closes that backend connection, so that sending the re-prepare fails with an error other than exhausted streams", "re-prepare send failure hands the request back only for StreamsExhausted: the EXECUTE is known to nobody any more and never answered"),
 "C04-15": ("C04", "a non-idempotent request pending on a backend connection the proxy closes itself (idle timeout after unanswered heartbeats, host removal, pool shutdown)", "OnClose moves on to the next host when the close error is the local Closed: the request is executed a second time"),
 "C05-10": ("C05", "a request in the middle of its traversal (a retry-next pending) when a host other than the current one is removed or added", "query plan re-reads the load balancer's live host list on every Next(): offset and index applied to a list of another length - a host twice, another never"),
 "C05-14": ("C05", "a non-idempotent prepared EXECUTE answered UNPREPARED, and the connection lost while the proxy's own PREPARE is in flight there", "prepareRequest.OnClose moves the original request to the next host instead of applying the connection-loss rule"),
 "C08-8": ("C08", "an EXECUTE that reaches another host and comes back UNPREPARED before the first connection's reader has stored the PREPARED result (a slow user-supplied cache widens the window)", "prepared cache filled after the PREPARED result has been handed to the client"),
 "C08-11": ("C08", "two EXECUTEs of one id answered UNPREPARED on one backend connection while the first one's re-prepare is unanswered, and that PREPARE answered with an error", "re-prepares shared per connection: the error branch moves only the first request on and forgets the waiters"),
 "C14-13": ("C14", "a schema event queued in the cluster's event channel while the loop is busy, and the control connection closing before the loop gets back to its select", "queued events discarded on control-connection loss as stale: a schema event already read is delivered to nobody"),
 "C16-13": ("C16", "a control-connection loss followed by nodes that accept connection and handshake but fail the system-table queries (restarting nodes)", "control connection, endpoint and outage reset recorded before the system queries: the outage clock restarts with every half-finished attempt, readiness never fails"),
 "C17-12": ("C17", "a backend that sends garbage (its connection is closed by the proxy) while a well-behaved client's request is handed to that connection during the notification of the pending requests (same change as C01-11, delivered for C17)", "Closing() notifies pending requests before it sets the closing flag: a request accepted in between is never answered"),
}
B12.update(B13)
B11.update(B12)
B10.update(B11)
B9.update(B10)
B8.update(B9)
B7.update(B8)
B6.update(B7)
B5.update(B6)
B4.update(B5)
B3.update(B4)
B2.update(B3)

FALSE_SIGS = ["C14/registered-client-got-no-copy", "C14/unregistered-client-got-event", "C14/event-lost/witness", "C16/healed-host-gets-no-traffic/", "C16/outage-not-reported-while-down",
              "C20/refused-valid/mapping", "C13/gate/rejected-version-forwarded/v=v4/max=v3", "C08/unprepared-reached-client/pipelined-reprepare-drop"]

rows = collections.defaultdict(dict)
for matrix in matrices:
    if not os.path.exists(matrix):
        continue
    for line in open(matrix):
        parts = line.rstrip("\n").split(" ", 3)
        if len(parts) >= 3 and parts[2].startswith("rc="):
            rows[parts[0]][parts[1]] = (int(parts[2][3:]), parts[3].strip() if len(parts) > 3 else "")

for sid in sorted(os.listdir(os.path.join(V, "seeded"))):
    d = os.path.join(V, "seeded", sid)
    if not os.path.isdir(d):
        continue
    mp = os.path.join(d, "meta.json")
    if os.path.exists(mp):
        meta = json.load(open(mp))
    else:
        prop, needs, effect = B2[sid]
        demos = sorted(f for f in os.listdir(d) if f not in ("patch.diff", "meta.json", "notes.md"))
        meta = {
            "id": sid, "breaks_property": prop,
            "origin": "fresh sub-agent given only the property text and a scratch worktree of /repo (commit %s)" % ("dd3f42b (round 13)" if sid in B13 else "dd3f42b (round 12)" if sid in B12 else "dd3f42b (round 11)" if sid in B11 else "dd3f42b (round 10)" if sid in B10 else "dd3f42b (round 9)" if sid in B9 else "dd3f42b (round 8)" if sid in B8 else "19163b6 (round 7)" if sid in B7 else "19163b6 (round 6)" if sid in B6 else "19163b6" if sid in B5 else "78cb41b" if sid in B4 else "98f4792" if sid in B3 else "2fe6b89"),
            "needs_to_manifest": needs, "effect": effect, "demonstration": demos,
            "confirmed": "bin/seedconfirm in the scratch worktree: patch applies, go build ok, existing suite passes with it (in a private network namespace), demonstration FAILS with the patch and PASSES without it",
            "checks_run": "bin/seedtest seeded/%s/patch.diff quick %s ; bin/seedmatrix quick" % (sid, prop),
        }
    if sid in rows:
        caught = {c: s for c, (rc, s) in sorted(rows[sid].items()) if rc == 1}
        # alarms of checks that were themselves wrong at the time of the matrix run (load-dependent false alarms, all
        # corrected afterwards, see DESIGN.md B.4) are not detections; they are kept apart
        own_p = meta["breaks_property"]
        wrong = {}
        for c_, s_ in list(caught.items()):
            sigs_ = [x for x in s_.split(";") if x.strip()]
            if c_ != own_p and sigs_ and all(any(x.startswith(f) for f in FALSE_SIGS) for x in sigs_):
                wrong[c_] = s_
                del caught[c_]
        if wrong:
            meta["alarms_of_checks_since_corrected"] = wrong
        else:
            meta.pop("alarms_of_checks_since_corrected", None)
        broken = {c: rc for c, (rc, s) in sorted(rows[sid].items()) if rc not in (0, 1)}
        meta["caught_by_quick"] = caught
        if broken:
            meta["inconclusive_or_broken_under_this_change"] = broken
        own = meta["breaks_property"]
        if "result" not in meta:
            meta["result"] = ("%s quick: %s" % (own, caught[own])) if own in caught else ("caught by " + ", ".join(caught) if caught else "MISSED by quick tier")
    json.dump(meta, open(mp, "w"), indent=1)
    open(mp, "a").write("\n")
    print(sid, "->", ",".join(meta.get("caught_by_quick", {}).keys()) or "?")

# ---- seeded/MATRIX.md and the compact table in DESIGN.md
def short(sig):
    first = sig.split(";")[0]
    return first if len(first) <= 110 else first[:107] + "..."

lines_full = ["# Seeded changes x checks (quick tier, seed 1)", "",
              "Generated by bin/mkseedmeta.py from the output of bin/seedmatrix. `own` = the check of the property the change breaks.", "",
              "| change | breaks | caught by own check (first signature) | also caught by | other exit codes |", "|---|---|---|---|---|"]
lines_short = ["| change | own check | also caught by |", "|---|---|---|"]
missed = []
for sid in sorted(os.listdir(os.path.join(V, "seeded"))):
    mp = os.path.join(V, "seeded", sid, "meta.json")
    if not os.path.exists(mp):
        continue
    meta = json.load(open(mp))
    own = meta["breaks_property"]
    caught = meta.get("caught_by_quick")
    if caught is None:
        lines_full.append("| %s | %s | (not in the matrix) | | |" % (sid, own))
        lines_short.append("| %s | (not in the matrix) | |" % sid)
        continue
    others = [c for c in caught if c != own]
    broken = meta.get("inconclusive_or_broken_under_this_change", {})
    own_txt = "`%s`" % short(caught[own]) if own in caught else "**MISSED**"
    if own not in caught:
        missed.append(sid)
    lines_full.append("| %s | %s | %s | %s | %s |" % (sid, own, own_txt, ", ".join(others), ", ".join("%s rc=%s" % kv for kv in broken.items())))
    lines_short.append("| %s | %s | %s |" % (sid, "yes" if own in caught else "**MISSED**", ", ".join(others)))
open(os.path.join(V, "seeded", "MATRIX.md"), "w").write("\n".join(lines_full) + "\n")
dp = os.path.join(V, "DESIGN.md")
d = open(dp).read()
b, e = d.find("<!-- MATRIX-BEGIN -->"), d.find("<!-- MATRIX-END -->")
if b >= 0 and e > b:
    d = d[:b] + "<!-- MATRIX-BEGIN -->\n" + "\n".join(lines_short) + "\n" + d[e:]
    open(dp, "w").write(d)
print("missed by own check:", missed or "none")
