#!/usr/bin/env python3
"""Regenerates /verif/MANIFEST.json from the table below (kept next to the checks so it cannot drift)."""
import json, subprocess, os, sys
V = os.path.dirname(os.path.dirname(os.path.abspath(__file__)))
props = [json.loads(l) for l in open(os.path.join(V, 'properties.jsonl'))]
TB = "Trusted base: Go toolchain; the reference codec of go-cassandra-native-protocol (used to generate and to decode for comparison); the harness' fakecass backend, rawcql client, generators and reference models."
checks = {
 'C01': dict(cat='exploration', tech='runtime monitoring: exactly-once pairing over recorded client/backend histories + bounded-progress rule, gate hooks ordering connection deaths',
   text='Held on the executions produced: outcome storms, all/selected linear extensions of the six-gate connection-death order, unhooked mass deaths, connections killed under fire, connections the proxy closes itself (idle timeout, removed host) with requests in flight, stream exhaustion. A lost or duplicated reply on any (client, stream) in those runs is reported with the history and a goroutine dump. Says nothing about schedules the workloads did not produce.', ref='2/C01'),
 'C02': dict(cat='exploration', tech='runtime monitoring: token/prepared-id/kind identity oracle over recorded histories with unique tokens',
   text='Every reply observed (tens of thousands per quick run) is matched to the request sent on that (client, stream) through the unique token the backend echoes; covers equal stream ids on many clients, permuted backend replies, >10x recycling of all 2048 backend stream ids, exhaustion bursts, failover storms, concurrent re-prepares with a widened window and a heartbeat reply that arrives after its stream id has been reused.', ref='2/C02'),
 'C03': dict(cat='exploration', tech='runtime monitoring: byte comparison of raw frames recorded at the client and backend boundaries (nothing decoded)',
   text='3000 (quick) / 150000 (thorough) generated request frames over version x compression x opcode x option flags x header decorations x size class x content class, each answered with a generated response of every RESULT kind / ERROR code with tracing, warnings, payload; both directions compared byte for byte except the stream id; plus retry storms and deterministic retry-twice-with-pipelined-requests cases in which every attempt reaching a backend must carry the bytes of its own request.', ref='2/C03'),
 'C04': dict(cat='fault_enumeration', tech='runtime monitoring: fault enumeration with an oracle on the backend arrival log (no arrival k+1 unless outcome k cannot have applied the request) and on the final client frame',
   text='Nine classes of requests that are not positively idempotent by construction (20 statement forms; prepared here / by another client / never through the proxy / forgotten by the host; batches; graph payload) x every complete outcome sequence for 1-2 hosts and PRNG walks for 3-4, (outcomes include error frames the protocol library cannot decode), plus connection loss after a partial reply, before the request is read, and by a close the proxy performs itself (idle timeout, removed host).', ref='2/C04'),
 'C05': dict(cat='fault_enumeration', tech='runtime monitoring: fault enumeration of per-attempt outcomes against an executable model of the documented policy',
   text='Exhaustive enumeration of the complete outcome sequences of the documented decision tree for 1-3 hosts (quick) / 1-4 hosts (thorough) x request kind x idempotency class, plus PRNG walks for 3-4 hosts; every observed attempt trace (host order, outcome) and final client frame must equal the model. The four decision functions are driven over all retry counts 0-4 x field grids. Targeted: connection dying between registration and write, same-host retry on a removed host, each slot of a two-connection pool lost in turn.', ref='2/C05'),
 'C06': dict(cat='exploration', tech='runtime monitoring of a pure function: PRNG grammar-based generation with ground truth by construction, metamorphic re-spelling oracle, hostile-input totality oracle in crash-isolated child processes',
   text='40k (quick) / 2M (thorough) generated statements with truth IDEMP / NONIDEMP(reason) / EITHER x 4-6 re-spellings (letter case, whitespace kinds, terminator; lone CR and $$-strings as separate sub-checks), 40k / 2M hostile strings, nesting up to 1e5 (quick) / 16 Mi (thorough, one child process per case), crafted identifiers in every identifier position, flat repetition (1025-4000x) of every guaranteed construct.', ref='2/C06'),
 'C07': dict(cat='exploration', tech='runtime monitoring: per-client sequential register model vs connection attributes echoed by the backend',
   text='Concurrent multi-client histories (versions v3/v4/v5/DSE, none/lz4/snappy) of USE variants (a quarter as PREPARE+EXECUTE) and data requests, with host restarts and simultaneous USE of a new keyspace; every data reply echoes keyspace/version/compression of the backend connection it ran on, compared with the client model in send order.', ref='2/C07'),
 'C08': dict(cat='exploration', tech='runtime monitoring: history oracle over merged client/backend logs (UNPREPARED never reaches the client; re-PREPARE text, acceptability and fail-over)',
   text='All subsets of forgetful hosts for 2-3 hosts x compression, batch children, v3 clients, hosts added after start-up, cross-compression/cross-version prepare/execute, failing re-prepares, multi-child batches, EXECUTE right behind its PREPARE (slow cache), pipelined EXECUTEs whose re-PREPARE is lost or refused.', ref='2/C08'),
 'C09': dict(cat='exploration', tech='runtime monitoring: expected decision computed by construction from tuple coordinates; backend-log oracle for end-to-end routing',
   text='Exhaustive product of (current keyspace, kind, qualifier, table, selectors incl. five the proxy cannot evaluate, trailing clause) = 580 800 tuples against IsQueryHandled in both tiers; PRNG sample end to end as QUERY and PREPARE+EXECUTE on a live proxy: the token reaches a backend iff not expected handled, and no system.local/peers read appears in any non-control backend log.', ref='2/C09'),
 'C10': dict(cat='exploration', tech='runtime monitoring: reference model of the virtual tables computed from the configuration; cells decoded with the reference datacodec; cross-instance comparison',
   text='Generated peer lists (0-16 IPv4/IPv6, self in/out, DC/tokens present or not, DSE or not) x 30 selector lists as QUERY and PREPARE+EXECUTE on v3 and v4; one real Proxy per list entry for mutual consistency; restart and cross-process host-id stability.', ref='2/C10'),
 'C11': dict(cat='exploration', tech='runtime monitoring of pure functions: differential test of the partial codecs against the reference codec on generated, truncated, mutated and random bodies',
   text='20k (quick) / 500k (thorough) reference-encoded QUERY/EXECUTE/BATCH messages over all five versions: partial decode fields == reference decode, partial re-encode == input bytes; every prefix, single-field mutations and random bytes: error or bounded success, never a panic or over-read.', ref='2/C11'),
 'C12': dict(cat='exploration', tech='runtime monitoring: byte-level comparison of client-sent and backend-received bodies with the expected two-byte consistency substitution, sentinel request for framing',
   text='Generated (unsupported set, override) configurations through proxy.Run (flags and YAML) x 150 generated requests each over five versions and three compressions; rewrite expected iff non-SELECT QUERY / EXECUTE of a non-SELECT id / BATCH with a consistency in the set; otherwise byte-identical; with no list nothing is modified; EXECUTE of a SELECT prepared a moment earlier.', ref='2/C12'),
 'C13': dict(cat='exploration', tech='runtime monitoring: per-stream reply counting, independently computed version predicate, backend-log oracle for forwarding',
   text='All known version bytes x opcodes x configured max versions; all 250 unknown version bytes; STARTUP option maps; all orders of OPTIONS/STARTUP/REGISTER/QUERY up to length 4, awaited and pipelined (thorough: the pipelined ones 240 times).', ref='2/C13'),
 'C14': dict(cat='exploration', tech='runtime monitoring: exactly-once counting of uniquely identified events over recorded client frames, sentinel-event logical barrier',
   text='Histories of connect/register(subsets)/disconnect with bursts of schema, topology and status events, concurrent register/disconnect during bursts, control-connection failover between bursts (also after a failed refresh), bursts followed at once by the end of the control connection, zombie clients and two proxies on one backend; per (client, event id) delivery counts are compared with must/may/never target sets.', ref='2/C14'),
 'C15': dict(cat='exploration', tech='runtime monitoring: set-model oracle over exhaustively enumerated event histories; porcupine linearizability check of recorded concurrent histories',
   text='All well-formed bootstrap/add/remove histories over <=5 hosts up to length 7 (quick) / 9 (thorough) with fresh, held and partially consumed plans; counter-wrap via the tag-guarded preset and, in thorough, 2^32+10 real NewQueryPlan calls; concurrent histories checked with porcupine against a 15-line model; end to end: topology sequences announced through a real control connection (some refreshes failing), plans of the load balancer inside the proxy compared with the membership the backend lists.', ref='2/C15'),
 'C16': dict(cat='fault_enumeration', tech='runtime monitoring: backend-side observation of refresh/reconnect events, recording ReconnectPolicy, bounds oracle on the backoff calculator, outage/readiness sampled at known states',
   text='Topology sequences (add/remove/restart, failed USE earlier) with routing checked after each observable refresh; kill/mute faults on pooled and control connections, single and simultaneous, muted connections with requests in flight (verdict by answered client round trips); backoff calculator grid; OutageDuration() and /readiness (through proxy.Run) at states the harness knows.', ref='2/C16'),
 'C17': dict(cat='exploration', tech='runtime monitoring of the real binary as a subprocess: liveness + canary clients as oracle, stderr scanned for panic/fatal, hostile inputs logged before sending',
   text='6000 (quick) / 80000 (thorough) hostile client byte streams per max-version setting (header fields over their whole range, truncations, lying lengths up to 16 MiB, hostile strings in every string field, deep nesting, hostile lz4/snappy incl. blocks ending around the announced length, first-on-connection statement/op pairs, slow-loris), ~50 kinds of hostile backend replies incl. control-connection garbage and bad heartbeat replies, 12 malformed system.local/peers results at start-up, refresh and fail-over; after every batch two canaries (plain, lz4) must get correct answers.', ref='2/C17'),
 'C18': dict(cat='exploration', tech='Go race detector (-race build, halt_on_error=0) over the concurrent scenario families; reports deduplicated by top-most repository frames',
   text='Eleven concurrent families (C01 storm/mass death/ordered deaths, C02 reorder/re-prepare, C07 concurrent USE, C08 re-prepare/late host, C14 bursts/failover, C16 topology/heal, topology changes under traffic, hostile client inputs beside normal traffic) x 2 (quick) / 10 (thorough) seeds on all cores; hook-event counts show the contended paths were reached.', ref='2/C18'),
 'C20': dict(cat='exploration', tech='runtime monitoring of the real binary as a subprocess (and proxy.Run in-process): observed STARTUP version byte, accepted version set, consistency seen at the backend, exit status',
   text='Every documented spelling x letter case of protocol-version / max-protocol-version and of every consistency name (flag, env, YAML), all 5x5 (version, max) pairs, and the invalid-configuration families with valid neighbours (every peer-token layout of 1-3 remote peers x own entry in the list): an invalid configuration must exit non-zero and never reach the running state.', ref='2/C20'),
 'C19': dict(cat='exploration', tech='runtime monitoring: harness TLS servers logging SNI, client certificate, handshake result and application bytes; accept/reject decided by construction of the chain',
   text='Real astra package end to end (bundle zip, metadata HTTPS, node connections through ConnectClient/Handshake) against 9 chain kinds x generated names/ids x TLS 1.2/1.3, certificates expiring after the endpoint was created, several endpoints of one bundle in every order, forged twins of the genuine certificate before and after a genuine handshake.', ref='2/C19'),
}
reasons_pending = "check not built yet in this session (planned, see DESIGN.md section 2); nothing is claimed for it until its check exists"
m = {
 "version": 1,
 "setup_cmd": "bin/check setup",
 "hooks": {
  "guard": "verif",
  "enable": "go build -tags verif (bin/check builds /verif/harness, whose go.mod replaces github.com/datastax/cql-proxy with /repo, so /repo's working tree is recompiled with the hooks on)",
  "baseline_off_cmd": "cd /repo && GOFLAGS=-mod=mod GOPROXY=off go test -json -vet=off -count=1 -timeout 25m ./...",
  "source_commits": ["bcdd8c1", "233dc92", "a4a9b03", "98f4792"],
  "add_only": True,
 },
 "engines": [{"name": "verif", "path": "harness/cmd/verif", "serves_properties": sorted(checks), "kind_free_text": "Go harness: supervisor + worker child processes running the real proxy in-process (build tag verif) or as a subprocess against a scriptable fake Cassandra; offline checkers over recorded event histories"}],
 "checks": [], "not_applicable": [],
 "notes": "All checks: bin/check <id> quick|thorough; replay: bin/check replay <file>. Known findings: known_findings.json.",
}
for p in props:
    i = p['id']
    if i in checks:
        c = checks[i]
        m['checks'].append({
          "property_id": i, "quick_cmd": f"bin/check {i} quick", "thorough_cmd": f"bin/check {i} thorough",
          "evidence_file": f"/verif/evidence/{i}.json", "replay_cmd_template": "bin/check replay {path}", "engine": "verif",
          "level_claimed": {"category": c['cat'], "text": c['text'], "design_ref": c['ref']},
          "level_note": TB + " " + c.get('note', ''), "technique": c['tech']})
    else:
        m['not_applicable'].append({"property_id": i, "reason": reasons_pending})
json.dump(m, open(os.path.join(V, 'MANIFEST.json'), 'w'), indent=1)
print("checks:", [c['property_id'] for c in m['checks']], "n/a:", len(m['not_applicable']))
